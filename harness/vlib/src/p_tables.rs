//! C21: stacked tables keep every saved entry under concurrent writers.
//! C22: the changed-path index agrees with tree diffs.
//!
//! C21 drives several `TableStore` instances on one directory in three ways:
//! random sequential histories (one thread, several instances, stale heads,
//! reloads), free-running threads with seeded yields at the hook points, and
//! controlled interleavings where a controller parks every actor at the
//! `table.*` / `lock.before` points and picks who runs next. Every save
//! carries a unique marker key; an offline checker over the recorded saves
//! decides the property. An independent parser of the segment files is used
//! as the "reload from disk" reference.
//!
//! Clause signatures (C21). The oracle is the one of DESIGN section 5; nothing is
//! weakened. Two groups of clauses fire on the unchanged code and are keyed
//! so that they can be registered without silencing the rest:
//! * `value.later_save_wins.{linear,divergent}_history` - a merge of heads
//!   (`merge_in`) copies *all* entries of the other head's segments that are
//!   not shared by name on top of the own chain; after a squash the segments
//!   of a common ancestor are no longer shared by name, so an older value
//!   overrides the value of a save that started from a table containing it
//!   (`verif-lib C21 quick --witness`, first part).
//! * `load.contains_completed_saves[.at_hook_point]`, `final.completed_save_present`,
//!   `reload.lookup_unchanged.after_merging_load`, each suffixed with
//!   `@unlocked_writers_or_no_flock` or `@locked_writers.flock` - when the heads
//!   are {A, B} with B = A + entries (a writer between add_head(B) and
//!   remove_head(A), or a head re-added by a concurrent merger), a
//!   `get_head()` listing A first re-creates B by content, removes A and then
//!   removes B as "merged head": no head is left and every entry is lost
//!   (`--witness`, second part). It needs a writer that does not hold the
//!   store lock while saving, or ineffective locks; with every save made
//!   under `get_head_locked()` and working flock (`@locked_writers.flock`) the
//!   clauses hold and stay live.
//!
//! Clause signatures (C22): `changed_paths.*` / `files_revset.*` are the DESIGN
//! oracle. `*.unsimplified_parent_conflict` is the same predicate, keyed
//! separately, for the one class seen on the unchanged code: the parents'
//! unresolved merge has an unsimplified term list at a path (e.g.
//! `[absent, absent, tree, absent, file]`), the commit holds the simplified
//! conflict `[tree, absent, file]` (its tree *is* `merge_commit_trees(parents)`),
//! and jj compares the term lists literally, so index and `files()` report
//! the path as changed although `jj diff` of that commit is empty.

use std::collections::BTreeMap;
use std::collections::BTreeSet;
use std::collections::HashMap;
use std::path::Path;
use std::path::PathBuf;
use std::sync::Arc;
use std::sync::Condvar;
use std::sync::Mutex;
use std::time::Duration;
use std::time::Instant;

use jj_lib::stacked_table::ReadonlyTable;
use jj_lib::stacked_table::TableSegment;
use jj_lib::stacked_table::TableStore;
use jj_lib::verif_hooks;
use serde_json::Value;
use serde_json::json;

use crate::common::*;

// ---------------------------------------------------------------------------
// Hook handler: off / seeded jitter / controlled parking, per thread.

#[derive(Clone, Debug, PartialEq, Eq)]
enum AState {
    Running,
    Parked { label: String, detail: String },
    Finished,
}

#[derive(Default)]
struct CtlState {
    actors: Vec<AState>,
    grants: Vec<bool>,
    locks: HashMap<String, usize>,
    release_all: bool,
    points: BTreeMap<String, u64>,
}

struct Ctl {
    st: Mutex<CtlState>,
    cv: Condvar,
}

#[derive(Clone)]
enum Mode {
    Off,
    Jitter(u64),
    Controlled(usize, Arc<Ctl>),
}

thread_local! {
    static MODE: std::cell::RefCell<Mode> = const { std::cell::RefCell::new(Mode::Off) };
}

fn set_mode(mode: Mode) {
    MODE.with(|m| *m.borrow_mut() = mode);
}

fn is_sched_point(label: &str) -> bool {
    matches!(
        label,
        "actor.start" | "table.read_heads.before" | "table.add_head.before" | "table.remove_head.before" | "lock.before"
    )
}

fn hook(label: &str, detail: &str) {
    let mode = MODE.with(|m| m.borrow().clone());
    match mode {
        Mode::Off => {}
        Mode::Jitter(mut state) => {
            if label.starts_with("table.") || label.starts_with("lock.") || label.starts_with("persist") {
                let x = splitmix(&mut state);
                set_mode(Mode::Jitter(state));
                match x % 16 {
                    0 => std::thread::sleep(Duration::from_micros((x >> 8) % 200)),
                    1..=5 => std::thread::yield_now(),
                    _ => {}
                }
            }
        }
        Mode::Controlled(id, ctl) => {
            let mut st = ctl.st.lock().unwrap();
            match label {
                "lock.acquired" => {
                    st.locks.insert(detail.to_owned(), id);
                }
                "lock.released" => {
                    if st.locks.get(detail) == Some(&id) {
                        st.locks.remove(detail);
                    }
                }
                _ => {}
            }
            if !is_sched_point(label) || st.release_all {
                return;
            }
            *st.points.entry(label.to_owned()).or_insert(0) += 1;
            st.actors[id] = AState::Parked { label: label.to_owned(), detail: detail.to_owned() };
            ctl.cv.notify_all();
            while !st.grants[id] && !st.release_all {
                st = ctl.cv.wait(st).unwrap();
            }
            st.grants[id] = false;
            st.actors[id] = AState::Running;
        }
    }
}

// ---------------------------------------------------------------------------
// Keys, values, recorded history

fn marker_key(ks: usize, id: usize) -> Vec<u8> {
    let mut k = vec![0xEE; ks];
    k[0] = 0xF0 | ((id >> 8) as u8 & 0x0F);
    k[1] = id as u8;
    k
}

fn marker_val(id: usize) -> Vec<u8> {
    let mut v = (id as u32).to_le_bytes().to_vec();
    v.push(b'M');
    v
}

fn writer_of(v: &[u8]) -> Option<usize> {
    (v.len() >= 4).then(|| u32::from_le_bytes(v[..4].try_into().unwrap()) as usize)
}

fn hot_keys(rng: &mut Rng, ks: usize) -> Vec<Vec<u8>> {
    let mut out = vec![vec![0u8; ks]];
    let mut k = vec![0u8; ks];
    k[ks - 1] = 1;
    out.push(k);
    let mut k = vec![0xFFu8; ks];
    k[0] = 0xEF; // just below the marker range
    out.push(k);
    for _ in 0..5 {
        out.push(cold_key(rng, ks));
    }
    out
}

fn cold_key(rng: &mut Rng, ks: usize) -> Vec<u8> {
    let mut k = vec![0u8; ks];
    k[0] = rng.below(0xF0) as u8;
    k[1] = rng.below(256) as u8;
    for b in k.iter_mut().skip(2) {
        *b = *rng.pick(&[0u8, 0, 1, 0xFF]);
    }
    k
}

fn gen_value(rng: &mut Rng, id: usize) -> Vec<u8> {
    let mut v = (id as u32).to_le_bytes().to_vec();
    let len = match rng.below(40) {
        0 => 3000,
        1..=3 => 200,
        4..=12 => 0,
        13..=20 => 1,
        _ => rng.range(2, 20),
    };
    for _ in 0..len {
        v.push(rng.next_u64() as u8);
    }
    v
}

#[derive(Debug)]
struct SaveData {
    id: usize,
    actor: usize,
    kind: &'static str,
    base: String,
    /// ids of the saves whose marker was in the head this save started from
    included: Vec<usize>,
    entries: BTreeMap<Vec<u8>, Vec<u8>>,
}

#[derive(Default)]
struct Hist {
    saves: Vec<Arc<SaveData>>,
    completed: Vec<bool>,
    keys: BTreeSet<Vec<u8>>,
    /// names of tables returned by save_table
    saved_names: BTreeSet<String>,
}

struct Snap {
    saves: Vec<Arc<SaveData>>,
    completed: Vec<bool>,
    keys: BTreeSet<Vec<u8>>,
    /// anc[s] = bitset of saves that happen before s (transitive)
    anc: Vec<Vec<u64>>,
}

fn bit(set: &[u64], i: usize) -> bool {
    set[i / 64] >> (i % 64) & 1 == 1
}

impl Snap {
    fn of(hist: &Mutex<Hist>) -> Self {
        let h = hist.lock().unwrap();
        let saves = h.saves.clone();
        let completed = h.completed.clone();
        let keys = h.keys.clone();
        drop(h);
        let n = saves.len();
        let words = n / 64 + 1;
        let mut anc: Vec<Vec<u64>> = Vec::with_capacity(n);
        for s in &saves {
            let mut set = vec![0u64; words];
            for &p in &s.included {
                set[p / 64] |= 1 << (p % 64);
                for w in 0..words {
                    set[w] |= anc[p][w];
                }
            }
            anc.push(set);
        }
        Self { saves, completed, keys, anc }
    }

    /// a happens before b
    fn hb(&self, a: usize, b: usize) -> bool {
        bit(&self.anc[b], a)
    }
}

#[derive(Default, Debug)]
struct Obs {
    saves: u64,
    stale_saves: u64,
    locked_saves: u64,
    squashes: u64,
    loads: u64,
    loads_of_merge_table: u64,
    multi_head_loads: u64,
    reloads: u64,
    keys_compared: u64,
    overwritten_keys_checked: u64,
    concurrent_writer_keys: u64,
    max_depth: u64,
    disk_tables_parsed: u64,
    concurrent_pairs: u64,
}

impl Obs {
    fn flush(&self, ctx: &Ctx, prefix: &str) {
        for (k, v) in [
            ("saves", self.saves),
            ("stale_head_saves", self.stale_saves),
            ("saves_under_get_head_locked", self.locked_saves),
            ("squashes", self.squashes),
            ("loads_checked", self.loads),
            ("loads_returning_a_merge_of_divergent_heads", self.loads_of_merge_table),
            ("loads_with_several_heads_listed_before", self.multi_head_loads),
            ("instance_reloads", self.reloads),
            ("key_lookups_compared", self.keys_compared),
            ("keys_with_sequential_overwrite_checked", self.overwritten_keys_checked),
            ("keys_with_concurrent_writers_checked", self.concurrent_writer_keys),
            ("tables_parsed_from_disk", self.disk_tables_parsed),
        ] {
            if v > 0 {
                ctx.count_n(k, v);
                ctx.count_n(&format!("{prefix}.{k}"), v);
            }
        }
        ctx.max("max_segment_depth", self.max_depth);
    }
}

// ---------------------------------------------------------------------------
// Independent reader of the segment files (the "reload from disk" reference)

fn parse_chain(dir: &Path, name: &str, ks: usize) -> Result<BTreeMap<Vec<u8>, Vec<u8>>, String> {
    let mut chain: Vec<Vec<(Vec<u8>, Vec<u8>)>> = vec![];
    let mut cur = Some(name.to_owned());
    while let Some(n) = cur {
        let data = std::fs::read(dir.join(&n)).map_err(|e| format!("segment {n}: {e}"))?;
        let u32_at = |pos: usize| -> Result<usize, String> {
            data.get(pos..pos + 4)
                .map(|b| u32::from_le_bytes(b.try_into().unwrap()) as usize)
                .ok_or_else(|| format!("segment {n}: truncated at {pos}"))
        };
        let plen = u32_at(0)?;
        let mut pos = 4;
        let parent = if plen > 0 {
            let p = data.get(pos..pos + plen).ok_or_else(|| format!("segment {n}: truncated parent name"))?;
            pos += plen;
            Some(String::from_utf8_lossy(p).into_owned())
        } else {
            None
        };
        let num = u32_at(pos)?;
        pos += 4;
        let index_end = pos + num * (ks + 4);
        if data.len() < index_end {
            return Err(format!("segment {n}: truncated index"));
        }
        let values = &data[index_end..];
        let mut entries = vec![];
        for i in 0..num {
            let e = pos + i * (ks + 4);
            let key = data[e..e + ks].to_vec();
            let start = u32_at(e + ks)?;
            let end = if i + 1 < num { u32_at(e + ks + 4 + ks)? } else { values.len() };
            let v = values.get(start..end).ok_or_else(|| format!("segment {n}: bad value range"))?;
            entries.push((key, v.to_vec()));
        }
        chain.push(entries);
        cur = parent;
    }
    let mut map = BTreeMap::new();
    for seg in chain.iter().rev() {
        for (k, v) in seg {
            map.insert(k.clone(), v.clone());
        }
    }
    Ok(map)
}

fn list_heads(dir: &Path) -> Vec<String> {
    let mut out: Vec<String> = std::fs::read_dir(dir.join("heads"))
        .map(|rd| rd.flatten().map(|e| e.file_name().to_string_lossy().into_owned()).collect())
        .unwrap_or_default();
    out.sort();
    out
}

fn hexs(b: &[u8]) -> String {
    let s: String = b.iter().take(12).map(|x| format!("{x:02x}")).collect();
    if b.len() > 12 { format!("{s}..[{}]", b.len()) } else { s }
}

fn ov(v: Option<&[u8]>) -> String {
    v.map_or("none".to_owned(), hexs)
}

// ---------------------------------------------------------------------------
// Offline checker

#[derive(Default)]
struct Fails(Vec<Fail>);

impl Fails {
    fn add(&mut self, clause: &str, message: String) {
        if !self.0.iter().any(|f| f.clause == clause) {
            self.0.push(Fail { clause: clause.to_owned(), message });
        }
    }
}

/// Checks one loaded table against the recorded history. `must_include`:
/// saves that had completed before the load started.
fn check_table(
    what: &str,
    table: &dyn TableSegment,
    snap: &Snap,
    ks: usize,
    must_include: &[usize],
    fails: &mut Fails,
    obs: &mut Obs,
) {
    let n = snap.saves.len();
    let mut included = vec![false; n];
    for s in 0..n {
        match table.get_value(&marker_key(ks, s)) {
            Some(v) if v == marker_val(s).as_slice() => included[s] = true,
            Some(v) => fails.add(
                "load.value_was_written",
                format!("{what}: marker of save {s} has value {} (written {})", hexs(v), hexs(&marker_val(s))),
            ),
            None => {}
        }
    }
    for &s in must_include {
        if !included[s] {
            fails.add(
                "load.contains_completed_saves",
                format!(
                    "{what}: the marker of save {s} (actor {}, {}, completed before the load started) is missing",
                    snap.saves[s].actor, snap.saves[s].kind
                ),
            );
        }
    }
    let inc: Vec<usize> = (0..n).filter(|s| included[*s]).collect();
    let mut linear = true;
    let mut pairs = 0u64;
    for (i, &a) in inc.iter().enumerate() {
        for &b in &inc[i + 1..] {
            if !snap.hb(a, b) && !snap.hb(b, a) {
                linear = false;
                pairs += 1;
            }
        }
    }
    obs.concurrent_pairs = obs.concurrent_pairs.max(pairs);
    for k in &snap.keys {
        let v = table.get_value(k);
        obs.keys_compared += 1;
        let writers: Vec<usize> = inc.iter().copied().filter(|s| snap.saves[*s].entries.contains_key(k)).collect();
        let Some(v) = v else {
            if let Some(w) = writers.first() {
                fails.add(
                    "load.entry_of_included_save_present",
                    format!("{what}: key {} written by save {w} (whose marker is present) is missing", hexs(k)),
                );
            }
            continue;
        };
        let w = writer_of(v).filter(|w| *w < n && snap.saves[*w].entries.get(k).map(Vec::as_slice) == Some(v));
        let Some(w) = w else {
            fails.add(
                "load.value_was_written",
                format!("{what}: key {} has value {} which no save wrote for it", hexs(k), hexs(v)),
            );
            continue;
        };
        if !included[w] {
            fails.add(
                "load.value_from_included_save",
                format!("{what}: key {} has the value of save {w} whose marker is absent", hexs(k)),
            );
            continue;
        }
        if writers.len() >= 2 {
            if writers.iter().any(|a| writers.iter().any(|b| snap.hb(*a, *b))) {
                obs.overwritten_keys_checked += 1;
            }
            if writers.iter().any(|a| writers.iter().any(|b| a != b && !snap.hb(*a, *b) && !snap.hb(*b, *a))) {
                obs.concurrent_writer_keys += 1;
            }
        }
        if let Some(later) = writers.iter().copied().find(|s| snap.hb(w, *s)) {
            let clause = if linear {
                "value.later_save_wins.linear_history"
            } else {
                "value.later_save_wins.divergent_history"
            };
            fails.add(
                clause,
                format!(
                    "{what}: key {} has the value of save {w} ({}), but save {later} ({}, started from head {} \
                     which contained the marker of save {w}{}) wrote {} later; writers of the key among included \
                     saves: {:?}",
                    hexs(k),
                    snap.saves[w].kind,
                    snap.saves[later].kind,
                    &snap.saves[later].base[..12.min(snap.saves[later].base.len())],
                    if snap.saves[later].included.contains(&w) { "" } else { " transitively" },
                    hexs(&snap.saves[later].entries[k]),
                    writers
                ),
            );
        }
    }
}

/// Compares jj's lookups on `table` with the independent parse of its files.
fn check_against_disk(what: &str, dir: &Path, table: &Arc<ReadonlyTable>, snap: &Snap, ks: usize, fails: &mut Fails, obs: &mut Obs) {
    match parse_chain(dir, table.name(), ks) {
        Err(e) => fails.add("reload.disk_readable", format!("{what}: {e}")),
        Ok(map) => {
            obs.disk_tables_parsed += 1;
            let markers: Vec<Vec<u8>> = (0..snap.saves.len()).map(|s| marker_key(ks, s)).collect();
            for k in snap.keys.iter().chain(markers.iter()) {
                let mem = table.get_value(k);
                let disk = map.get(k).map(Vec::as_slice);
                if mem != disk {
                    fails.add(
                        "reload.disk_agrees_with_memory",
                        format!("{what}: key {}: in memory {}, files on disk {}", hexs(k), ov(mem), ov(disk)),
                    );
                }
            }
            for k in map.keys() {
                if table.get_value(k).is_none() {
                    fails.add(
                        "reload.disk_agrees_with_memory",
                        format!("{what}: key {} is in the files but not found by get_value", hexs(k)),
                    );
                }
            }
        }
    }
}

// ---------------------------------------------------------------------------
// Actors

#[derive(Clone, Debug, PartialEq, Eq, Hash)]
enum Op {
    SaveFresh { n: usize },
    SaveStale { pick: usize, n: usize },
    SaveLocked { n: usize },
    GetHead,
    Reload,
}

impl Op {
    fn json(&self) -> Value {
        json!(format!("{self:?}"))
    }
}

fn gen_op(rng: &mut Rng) -> Op {
    let n = *rng.pick(&[1usize, 1, 1, 2, 2, 2, 4, 4, 12, 40]);
    match rng.below(20) {
        0..=7 => Op::SaveFresh { n },
        8..=12 => Op::SaveStale { pick: rng.below(1000), n },
        13..=14 => Op::SaveLocked { n },
        15..=17 => Op::GetHead,
        _ => Op::Reload,
    }
}

struct Shared {
    dir: PathBuf,
    ks: usize,
    hot: Vec<Vec<u8>>,
    hist: Mutex<Hist>,
    /// sequential mode: nobody else touches the directory during a call
    exclusive: bool,
}

struct Actor {
    idx: usize,
    store: TableStore,
    held: Vec<Arc<ReadonlyTable>>,
    rng: Rng,
    fails: Fails,
    obs: Obs,
}

impl Actor {
    fn new(idx: usize, sh: &Shared, rng: Rng) -> Self {
        Self {
            idx,
            store: TableStore::load(sh.dir.clone(), sh.ks),
            held: vec![],
            rng,
            fails: Fails::default(),
            obs: Obs::default(),
        }
    }

    fn depth(&mut self, t: &Arc<ReadonlyTable>) {
        self.obs.max_depth = self.obs.max_depth.max(t.ancestor_segments().count() as u64);
    }

    /// `get_head` checked as a load.
    fn load(&mut self, sh: &Shared) -> Option<Arc<ReadonlyTable>> {
        let completed_before: Vec<usize> = {
            let h = sh.hist.lock().unwrap();
            (0..h.saves.len()).filter(|s| h.completed[*s]).collect()
        };
        let heads_before = if sh.exclusive { list_heads(&sh.dir) } else { vec![] };
        let head_maps: Vec<BTreeMap<Vec<u8>, Vec<u8>>> = if heads_before.len() > 1 {
            heads_before.iter().filter_map(|h| parse_chain(&sh.dir, h, sh.ks).ok()).collect()
        } else {
            vec![]
        };
        let table = match self.store.get_head() {
            Ok(t) => t,
            Err(e) => {
                self.fails.add("get_head.error", format!("actor {}: get_head failed: {e:?}", self.idx));
                return None;
            }
        };
        self.obs.loads += 1;
        if heads_before.len() > 1 {
            self.obs.multi_head_loads += 1;
        }
        let what = format!("actor {} get_head -> {}", self.idx, &table.name()[..12]);
        // Merge oracle (sequential mode): every key of every listed head is
        // present with the value of one of the heads.
        if head_maps.len() == heads_before.len() && head_maps.len() > 1 {
            let mut union: BTreeMap<&Vec<u8>, Vec<&Vec<u8>>> = BTreeMap::new();
            for m in &head_maps {
                for (k, v) in m {
                    union.entry(k).or_default().push(v);
                }
            }
            for (k, vals) in union {
                let got = table.get_value(k);
                if !vals.iter().any(|v| Some(v.as_slice()) == got) {
                    self.fails.add(
                        "merge.union_of_heads",
                        format!(
                            "{what}: heads {:?} hold key {} with values {:?}, merged table has {}",
                            heads_before.iter().map(|h| &h[..8]).collect::<Vec<_>>(),
                            hexs(k),
                            vals.iter().map(|v| hexs(v)).collect::<Vec<_>>(),
                            ov(got)
                        ),
                    );
                }
            }
        }
        let snap = Snap::of(&sh.hist);
        {
            let h = sh.hist.lock().unwrap();
            if !h.saved_names.contains(table.name()) {
                self.obs.loads_of_merge_table += 1;
            }
        }
        check_table(&what, table.as_ref(), &snap, sh.ks, &completed_before, &mut self.fails, &mut self.obs);
        if sh.exclusive {
            check_against_disk(&what, &sh.dir, &table, &snap, sh.ks, &mut self.fails, &mut self.obs);
        }
        self.depth(&table);
        self.held.push(table.clone());
        Some(table)
    }

    fn save(&mut self, sh: &Shared, base: Arc<ReadonlyTable>, n: usize, kind: &'static str) {
        // Register the save (id, entries, included markers) before it can become visible.
        let data = {
            let mut h = sh.hist.lock().unwrap();
            let id = h.saves.len();
            let included: Vec<usize> = (0..id)
                .filter(|s| base.get_value(&marker_key(sh.ks, *s)).is_some())
                .collect();
            let mut entries = BTreeMap::new();
            for _ in 0..n {
                let key = if self.rng.chance(3, 5) { self.rng.pick(&sh.hot).clone() } else { cold_key(&mut self.rng, sh.ks) };
                entries.insert(key, gen_value(&mut self.rng, id));
            }
            for k in entries.keys() {
                h.keys.insert(k.clone());
            }
            entries.insert(marker_key(sh.ks, id), marker_val(id));
            let data = Arc::new(SaveData { id, actor: self.idx, kind, base: base.name().to_owned(), included, entries });
            h.saves.push(data.clone());
            h.completed.push(false);
            data
        };
        let mut mt = base.start_mutation();
        let mut order: Vec<(&Vec<u8>, &Vec<u8>)> = data.entries.iter().collect();
        self.rng.shuffle(&mut order);
        if self.rng.chance(1, 4) {
            // an entry overwritten inside one mutation: the last add wins
            let (k, _) = order[0];
            mt.add_entry(k.clone(), b"\xff\xff\xff\xffoverwritten".to_vec());
        }
        for (k, v) in order {
            mt.add_entry(k.clone(), v.clone());
        }
        let snap_keys: Vec<Vec<u8>> = {
            let h = sh.hist.lock().unwrap();
            let mut keys: Vec<Vec<u8>> = h.keys.iter().cloned().collect();
            keys.extend((0..h.saves.len()).map(|s| marker_key(sh.ks, s)));
            keys
        };
        let mut probes = snap_keys;
        for _ in 0..3 {
            let mut k = self.rng.pick(&probes).clone();
            let last = sh.ks - 1;
            k[last] = k[last].wrapping_add(*self.rng.pick(&[1u8, 0xFF]));
            probes.push(k);
        }
        let expect = |k: &Vec<u8>| -> Option<&[u8]> { data.entries.get(k).map(Vec::as_slice).or_else(|| base.get_value(k)) };
        for k in &probes {
            if mt.get_value(k) != expect(k) {
                self.fails.add(
                    "mutable.lookup_is_base_plus_entries",
                    format!("save {}: key {}: mutable table {}, expected {}", data.id, hexs(k), ov(mt.get_value(k)), ov(expect(k))),
                );
            }
        }
        let table = match self.store.save_table(mt) {
            Ok(t) => t,
            Err(e) => {
                self.fails.add("save_table.error", format!("actor {} save {}: {e:?}", self.idx, data.id));
                return;
            }
        };
        let squashed = table.segment_parent_file().map(|p| p.name()) != Some(base.name());
        for k in &probes {
            self.obs.keys_compared += 1;
            if table.get_value(k) != expect(k) {
                self.fails.add(
                    if squashed { "squash.lookup_unchanged" } else { "save.lookup_is_base_plus_entries" },
                    format!(
                        "save {} ({kind}, base {} depth {}, result {} depth {}): key {}: saved table {}, expected {}",
                        data.id,
                        &base.name()[..12],
                        base.ancestor_segments().count(),
                        &table.name()[..12],
                        table.ancestor_segments().count(),
                        hexs(k),
                        ov(table.get_value(k)),
                        ov(expect(k))
                    ),
                );
            }
        }
        {
            let mut h = sh.hist.lock().unwrap();
            h.completed[data.id] = true;
            h.saved_names.insert(table.name().to_owned());
        }
        self.obs.saves += 1;
        if squashed {
            self.obs.squashes += 1;
        }
        match kind {
            "stale" => self.obs.stale_saves += 1,
            "locked" => self.obs.locked_saves += 1,
            _ => {}
        }
        if sh.exclusive || self.rng.chance(1, 4) {
            let snap = Snap::of(&sh.hist);
            let what = format!("save {} result {}", data.id, &table.name()[..12]);
            check_against_disk(&what, &sh.dir, &table, &snap, sh.ks, &mut self.fails, &mut self.obs);
        }
        self.depth(&table);
        self.held.push(table);
    }

    fn run_op(&mut self, sh: &Shared, op: &Op) {
        match op {
            Op::GetHead => {
                self.load(sh);
            }
            Op::SaveFresh { n } => {
                if let Some(base) = self.load(sh) {
                    self.save(sh, base, *n, "fresh");
                }
            }
            Op::SaveStale { pick, n } => {
                if self.held.is_empty() {
                    if let Some(base) = self.load(sh) {
                        self.save(sh, base, *n, "fresh");
                    }
                } else {
                    let base = self.held[pick % self.held.len()].clone();
                    self.save(sh, base, *n, "stale");
                }
            }
            Op::SaveLocked { n } => match self.store.get_head_locked() {
                Ok((base, lock)) => {
                    self.save(sh, base, *n, "locked");
                    drop(lock);
                }
                Err(e) => self.fails.add("get_head.error", format!("actor {}: get_head_locked failed: {e:?}", self.idx)),
            },
            Op::Reload => {
                if sh.exclusive {
                    // Reload from disk never changes a lookup result.
                    let merging = list_heads(&sh.dir).len() > 1;
                    let before = self.load(sh);
                    self.store = TableStore::load(sh.dir.clone(), sh.ks);
                    self.held.clear();
                    let after = self.load(sh);
                    if let (Some(b), Some(a)) = (before, after) {
                        let snap = Snap::of(&sh.hist);
                        let markers: Vec<Vec<u8>> = (0..snap.saves.len()).map(|s| marker_key(sh.ks, s)).collect();
                        for k in snap.keys.iter().chain(markers.iter()) {
                            if a.get_value(k) != b.get_value(k) {
                                self.fails.add(
                                    if merging { "reload.lookup_unchanged.after_merging_load" } else { "reload.lookup_unchanged" },
                                    format!("key {}: before reload {}, after {}", hexs(k), ov(b.get_value(k)), ov(a.get_value(k))),
                                );
                            }
                        }
                    }
                } else {
                    self.store = TableStore::load(sh.dir.clone(), sh.ks);
                    self.held.clear();
                }
                self.obs.reloads += 1;
            }
        }
    }
}

impl Obs {
    fn merge(&mut self, o: &Obs) {
        self.saves += o.saves;
        self.stale_saves += o.stale_saves;
        self.locked_saves += o.locked_saves;
        self.squashes += o.squashes;
        self.loads += o.loads;
        self.loads_of_merge_table += o.loads_of_merge_table;
        self.multi_head_loads += o.multi_head_loads;
        self.reloads += o.reloads;
        self.keys_compared += o.keys_compared;
        self.overwritten_keys_checked += o.overwritten_keys_checked;
        self.concurrent_writer_keys += o.concurrent_writer_keys;
        self.max_depth = self.max_depth.max(o.max_depth);
        self.disk_tables_parsed += o.disk_tables_parsed;
        self.concurrent_pairs = self.concurrent_pairs.max(o.concurrent_pairs);
    }
}

// ---------------------------------------------------------------------------
// Cases

#[derive(Clone, Copy, Debug, PartialEq, Eq, Hash)]
enum Kind {
    Sequential,
    FreeRunning,
    Controlled,
}

#[derive(Clone, Debug, Hash)]
struct TableCase {
    kind: Kind,
    ks: usize,
    no_lock: bool,
    /// every save of the actors is made under get_head_locked (what jj's own callers do)
    disciplined: bool,
    /// sequential: one global list of (actor, op); otherwise one script per actor
    seq: Vec<(usize, Op)>,
    scripts: Vec<Vec<Op>>,
    /// divergent heads created (sequentially, from the same base) before the actors start
    initial_divergent: usize,
    seed: u64,
}

impl TableCase {
    fn json(&self) -> Value {
        json!({
            "kind": format!("{:?}", self.kind), "key_size": self.ks, "locks_disabled": self.no_lock,
            "all_saves_under_lock": self.disciplined,
            "seq": self.seq.iter().map(|(a, o)| json!([a, o.json()])).collect::<Vec<_>>(),
            "scripts": self.scripts.iter().map(|s| s.iter().map(Op::json).collect::<Vec<_>>()).collect::<Vec<_>>(),
            "initial_divergent_heads": self.initial_divergent, "seed": self.seed.to_string(),
        })
    }
}

fn gen_disciplined_op(rng: &mut Rng, small: bool) -> Op {
    let n = if small { rng.range(1, 3) } else { *rng.pick(&[1usize, 1, 1, 2, 2, 2, 4, 4, 12, 40]) };
    match rng.below(20) {
        0..=11 => Op::SaveLocked { n },
        12..=17 => Op::GetHead,
        _ if small => Op::GetHead,
        _ => Op::Reload,
    }
}

impl TableCase {
    /// Lock discipline of the case; part of the signature of the clauses
    /// about lost saves.
    fn profile(&self) -> &'static str {
        if self.disciplined && !self.no_lock { "locked_writers.flock" } else { "unlocked_writers_or_no_flock" }
    }
}

fn gen_case(rng: &mut Rng, kind: Kind, no_lock: bool, big: bool) -> TableCase {
    let ks = *rng.pick(&[2usize, 3, 5, 8]);
    let n_actors = rng.range(2, 4);
    let disciplined = rng.chance(2, 5);
    let mut seq = vec![];
    let mut scripts = vec![];
    match kind {
        Kind::Sequential => {
            for _ in 0..rng.range(6, if big { 60 } else { 28 }) {
                let op = if disciplined { gen_disciplined_op(rng, false) } else { gen_op(rng) };
                seq.push((rng.below(n_actors), op));
            }
        }
        Kind::FreeRunning => {
            for _ in 0..n_actors {
                scripts.push(
                    (0..rng.range(3, if big { 20 } else { 9 }))
                        .map(|_| if disciplined { gen_disciplined_op(rng, false) } else { gen_op(rng) })
                        .collect(),
                );
            }
        }
        Kind::Controlled => {
            let n_actors = rng.range(2, 3);
            for _ in 0..n_actors {
                let script: Vec<Op> = (0..rng.range(1, 2))
                    .map(|_| if disciplined { gen_disciplined_op(rng, true) } else { match rng.below(8) {
                        0..=2 => Op::SaveFresh { n: rng.range(1, 3) },
                        3..=4 => Op::SaveStale { pick: rng.below(1000), n: rng.range(1, 3) },
                        5 => Op::SaveLocked { n: rng.range(1, 3) },
                        _ => Op::GetHead,
                    } })
                    .collect();
                scripts.push(script);
            }
        }
    }
    let initial_divergent = *rng.pick(&[0usize, 0, 2, 2, 3]);
    TableCase { kind, ks, no_lock, disciplined, seq, scripts, initial_divergent, seed: rng.next_u64() }
}

struct CaseOutcome {
    fails: Vec<Fail>,
    inconclusive: Option<String>,
    obs: Obs,
    nontrivial: bool,
    steps: u64,
    points: BTreeMap<String, u64>,
    final_heads_before_load: usize,
}

/// Creates the store, a base head with a few entries and, optionally,
/// divergent heads (saves from the same base by a setup actor).
fn setup_store(case: &TableCase, rng: &mut Rng) -> (tempfile::TempDir, Arc<Shared>, Actor) {
    let tmp = testutils::new_temp_dir();
    let dir = tmp.path().to_path_buf();
    let _init = TableStore::init(dir.clone(), case.ks);
    let hot = hot_keys(rng, case.ks);
    let sh = Arc::new(Shared {
        dir,
        ks: case.ks,
        hot,
        hist: Mutex::new(Hist::default()),
        exclusive: case.kind == Kind::Sequential,
    });
    // The setup actor always works alone on the directory.
    let setup_sh = Shared {
        dir: sh.dir.clone(),
        ks: sh.ks,
        hot: sh.hot.clone(),
        hist: Mutex::new(Hist::default()),
        exclusive: true,
    };
    let mut setup = Actor::new(99, &setup_sh, rng.fork());
    setup.run_op(&setup_sh, &Op::SaveFresh { n: rng.range(1, 6) });
    if case.initial_divergent > 0 {
        let base = setup.held.last().cloned();
        if let Some(base) = base {
            for _ in 0..case.initial_divergent {
                setup.save(&setup_sh, base.clone(), rng.range(1, 3), "stale");
            }
        }
    }
    // Hand the setup history over to the shared record.
    *sh.hist.lock().unwrap() = std::mem::take(&mut *setup_sh.hist.lock().unwrap());
    (tmp, sh, setup)
}

fn final_check(sh: &Shared, fails: &mut Fails, obs: &mut Obs) -> usize {
    let heads_before = list_heads(&sh.dir).len();
    let snap = Snap::of(&sh.hist);
    let completed: Vec<usize> = (0..snap.saves.len()).filter(|s| snap.completed[*s]).collect();
    let fresh = TableStore::load(sh.dir.clone(), sh.ks);
    let table = match fresh.get_head() {
        Ok(t) => t,
        Err(e) => {
            fails.add("get_head.error", format!("final get_head failed: {e:?}"));
            return heads_before;
        }
    };
    obs.loads += 1;
    if heads_before > 1 {
        obs.multi_head_loads += 1;
    }
    let what = format!("final get_head -> {}", &table.name()[..12]);
    check_table(&what, table.as_ref(), &snap, sh.ks, &completed, fails, obs);
    for &s in &completed {
        for (k, _) in &snap.saves[s].entries {
            if table.get_value(k).is_none() {
                fails.add(
                    "final.completed_save_present",
                    format!("{what}: key {} of completed save {s} ({}) is missing", hexs(k), snap.saves[s].kind),
                );
            }
        }
    }
    check_against_disk(&what, &sh.dir, &table, &snap, sh.ks, fails, obs);
    // A second fresh instance: reload from disk never changes a lookup result.
    let fresh2 = TableStore::load(sh.dir.clone(), sh.ks);
    match fresh2.get_head() {
        Ok(t2) => {
            obs.reloads += 1;
            let markers: Vec<Vec<u8>> = (0..snap.saves.len()).map(|s| marker_key(sh.ks, s)).collect();
            for k in snap.keys.iter().chain(markers.iter()) {
                if t2.get_value(k) != table.get_value(k) {
                    fails.add(
                        if heads_before > 1 { "reload.lookup_unchanged.after_merging_load" } else { "reload.lookup_unchanged" },
                        format!("key {}: first load {}, reloaded {}", hexs(k), ov(table.get_value(k)), ov(t2.get_value(k))),
                    );
                }
            }
        }
        Err(e) => fails.add("get_head.error", format!("second final get_head failed: {e:?}")),
    }
    obs.max_depth = obs.max_depth.max(table.ancestor_segments().count() as u64);
    heads_before
}

fn caught_to_fail<T>(c: Caught<T>, fails: &mut Fails, inconclusive: &mut Option<String>) -> Option<T> {
    match c {
        Caught::Ok(v) => Some(v),
        Caught::SubjectPanic { location, message } => {
            fails.add(&panic_signature(&location, &message), format!("code under test panicked at {location}: {message}"));
            None
        }
        Caught::HarnessPanic { location, message } => {
            *inconclusive = Some(format!("harness panic at {location}: {}", truncate(&message, 300)));
            None
        }
    }
}

fn nontrivial_history(sh: &Shared) -> bool {
    let snap = Snap::of(&sh.hist);
    let done: Vec<usize> = (0..snap.saves.len()).filter(|s| snap.completed[*s]).collect();
    done.iter().any(|a| done.iter().any(|b| a < b && !snap.hb(*a, *b) && !snap.hb(*b, *a)))
}

fn run_table_case(case: &TableCase) -> CaseOutcome {
    let mut rng = Rng::new(case.seed);
    let (_tmp, sh, setup) = setup_store(case, &mut rng);
    let mut fails = Fails::default();
    let mut obs = Obs::default();
    let mut inconclusive = None;
    let mut steps = 0u64;
    let mut points = BTreeMap::new();
    let seed_held: Vec<Arc<ReadonlyTable>> = setup.held.clone();
    for f in setup.fails.0 {
        fails.add(&f.clause, format!("(setup) {}", f.message));
    }
    obs.merge(&setup.obs);
    match case.kind {
        Kind::Sequential => {
            let n_actors = case.seq.iter().map(|(a, _)| a + 1).max().unwrap_or(1);
            let mut actors: Vec<Actor> = (0..n_actors).map(|i| Actor::new(i, &sh, rng.fork())).collect();
            let r = catch(|| {
                for (a, op) in &case.seq {
                    actors[*a].run_op(&sh, op);
                    steps += 1;
                }
            });
            caught_to_fail(r, &mut fails, &mut inconclusive);
            for a in actors {
                for f in a.fails.0 {
                    fails.add(&f.clause, f.message);
                }
                obs.merge(&a.obs);
            }
        }
        Kind::FreeRunning => {
            let barrier = Arc::new(std::sync::Barrier::new(case.scripts.len()));
            let mut handles = vec![];
            for (i, script) in case.scripts.iter().cloned().enumerate() {
                let sh = sh.clone();
                let barrier = barrier.clone();
                let arng = rng.fork();
                let jitter = rng.next_u64();
                let seed_held = seed_held.clone();
                handles.push(std::thread::spawn(move || {
                    let mut actor = Actor::new(i, &sh, arng);
                    actor.held = seed_held;
                    barrier.wait();
                    set_mode(Mode::Jitter(jitter));
                    let r = catch(|| {
                        for op in &script {
                            actor.run_op(&sh, op);
                        }
                    });
                    set_mode(Mode::Off);
                    (actor.fails, actor.obs, r)
                }));
            }
            for h in handles {
                match h.join() {
                    Ok((f, o, r)) => {
                        for f in f.0 {
                            fails.add(&f.clause, f.message);
                        }
                        obs.merge(&o);
                        caught_to_fail(r, &mut fails, &mut inconclusive);
                    }
                    Err(_) => inconclusive = Some("actor thread could not be joined".into()),
                }
            }
            steps = case.scripts.iter().map(|s| s.len() as u64).sum();
        }
        Kind::Controlled => {
            run_controlled(case, &sh, &seed_held, &mut rng, &mut fails, &mut obs, &mut inconclusive, &mut steps, &mut points);
        }
    }
    let mut final_heads = 0;
    if inconclusive.is_none() {
        let r = catch(|| final_check(&sh, &mut fails, &mut obs));
        final_heads = caught_to_fail(r, &mut fails, &mut inconclusive).unwrap_or(0);
    }
    let nontrivial = nontrivial_history(&sh);
    CaseOutcome { fails: fails.0, inconclusive, obs, nontrivial, steps, points, final_heads_before_load: final_heads }
}

/// Monitor used between controlled steps (nobody is running): every
/// completed save's marker must be in the files reachable from some head,
/// otherwise a load started now cannot return it.
fn heads_cover_completed(sh: &Shared) -> Result<(), (usize, Vec<String>)> {
    let (done, n): (Vec<usize>, usize) = {
        let h = sh.hist.lock().unwrap();
        ((0..h.saves.len()).filter(|s| h.completed[*s]).collect(), h.saves.len())
    };
    let _ = n;
    let heads = list_heads(&sh.dir);
    let maps: Vec<BTreeMap<Vec<u8>, Vec<u8>>> = heads.iter().filter_map(|h| parse_chain(&sh.dir, h, sh.ks).ok()).collect();
    for s in done {
        let k = marker_key(sh.ks, s);
        if !maps.iter().any(|m| m.contains_key(&k)) {
            return Err((s, heads));
        }
    }
    Ok(())
}

#[allow(clippy::too_many_arguments)]
fn run_controlled(
    case: &TableCase,
    sh: &Arc<Shared>,
    seed_held: &[Arc<ReadonlyTable>],
    rng: &mut Rng,
    fails: &mut Fails,
    obs: &mut Obs,
    inconclusive: &mut Option<String>,
    steps: &mut u64,
    points: &mut BTreeMap<String, u64>,
) {
    let n = case.scripts.len();
    let ctl = Arc::new(Ctl {
        st: Mutex::new(CtlState {
            actors: vec![AState::Running; n],
            grants: vec![false; n],
            ..Default::default()
        }),
        cv: Condvar::new(),
    });
    // Every actor starts with the setup tables in hand (for stale saves).
    let mut handles = vec![];
    for (i, script) in case.scripts.iter().cloned().enumerate() {
        let sh = sh.clone();
        let ctl = ctl.clone();
        let arng = rng.fork();
        let seed_held = seed_held.to_vec();
        handles.push(std::thread::spawn(move || {
            let mut actor = Actor::new(i, &sh, arng);
            actor.held = seed_held;
            set_mode(Mode::Controlled(i, ctl.clone()));
            hook("actor.start", "");
            let r = catch(|| {
                for op in &script {
                    actor.run_op(&sh, op);
                }
            });
            set_mode(Mode::Off);
            let mut st = ctl.st.lock().unwrap();
            st.actors[i] = AState::Finished;
            st.locks.retain(|_, holder| *holder != i);
            ctl.cv.notify_all();
            drop(st);
            (actor.fails, actor.obs, r)
        }));
    }
    let deadline = Instant::now() + Duration::from_secs(120);
    let release = |ctl: &Ctl| {
        let mut st = ctl.st.lock().unwrap();
        st.release_all = true;
        ctl.cv.notify_all();
    };
    loop {
        let mut st = ctl.st.lock().unwrap();
        let mut timed_out = false;
        while st.actors.iter().any(|a| *a == AState::Running) {
            let (guard, t) = ctl.cv.wait_timeout(st, Duration::from_millis(200)).unwrap();
            st = guard;
            if t.timed_out() && Instant::now() > deadline {
                timed_out = true;
                break;
            }
        }
        if timed_out {
            *inconclusive = Some(format!("controlled schedule watchdog: {:?}", st.actors));
            drop(st);
            release(&ctl);
            break;
        }
        let actors = st.actors.clone();
        let locks = st.locks.clone();
        drop(st);
        let probe_would_block = !case.no_lock && !locks.is_empty() && list_heads(&sh.dir).len() > 1;
        if probe_would_block {
            // A load from the controller would wait for the parked lock holder;
            // later loads and the final check still see a real loss.
        } else if let Err((s, heads)) = heads_cover_completed(sh) {
            // Confirm with a real load before reporting.
            let probe = TableStore::load(sh.dir.clone(), sh.ks);
            let confirmed = match probe.get_head() {
                Ok(t) => t.get_value(&marker_key(sh.ks, s)).is_none(),
                Err(_) => true,
            };
            if confirmed {
                fails.add(
                    "load.contains_completed_saves.at_hook_point",
                    format!(
                        "after step {steps}: completed save {s} is in none of the heads {:?} and a load at this \
                         point does not return its marker; actors {actors:?}",
                        heads.iter().map(|h| &h[..12.min(h.len())]).collect::<Vec<_>>()
                    ),
                );
            } else {
                *inconclusive = Some(format!("disk monitor missed save {s} but a real load found it"));
            }
            release(&ctl);
            break;
        }
        let enabled: Vec<usize> = actors
            .iter()
            .enumerate()
            .filter(|(i, a)| match a {
                AState::Parked { label, detail } => {
                    !(label == "lock.before" && !case.no_lock && locks.get(detail).is_some_and(|h| h != i))
                }
                _ => false,
            })
            .map(|(i, _)| i)
            .collect();
        if enabled.is_empty() {
            if !actors.iter().all(|a| *a == AState::Finished) {
                *inconclusive = Some(format!("no enabled actor: {actors:?} locks {locks:?}"));
                release(&ctl);
            }
            break;
        }
        let pick = enabled[rng.below(enabled.len())];
        *steps += 1;
        let mut st = ctl.st.lock().unwrap();
        st.actors[pick] = AState::Running;
        st.grants[pick] = true;
        ctl.cv.notify_all();
    }
    for h in handles {
        match h.join() {
            Ok((f, o, r)) => {
                for f in f.0 {
                    fails.add(&f.clause, f.message);
                }
                obs.merge(&o);
                caught_to_fail(r, fails, inconclusive);
            }
            Err(_) => *inconclusive = Some("actor thread could not be joined".into()),
        }
    }
    *points = ctl.st.lock().unwrap().points.clone();
}

/// Minimal scripted witness for clause `value.later_save_wins.divergent_history`
/// (`verif-lib C21 quick --witness`): save A writes key=old; save B, started
/// from A's table, writes key=new (A -> B); save C, also started from A's
/// table (stale), writes an unrelated key. All three squash into parent-less
/// segments, so the merge of the heads {B, C} finds no common segment and
/// copies C's copy of key=old on top of B whenever B is listed first.
fn witness_later_save_loses() {
    let mut old_wins = 0;
    let mut new_wins = 0;
    for attempt in 0..16u8 {
        let tmp = testutils::new_temp_dir();
        let store = TableStore::init(tmp.path().to_path_buf(), 3);
        let mut m = store.get_head().unwrap().start_mutation();
        m.add_entry(b"key".to_vec(), b"old".to_vec());
        m.add_entry(b"aaa".to_vec(), vec![attempt]);
        let a = store.save_table(m).unwrap();
        // The two saves from A's table, in either order (the heads directory
        // happens to be listed newest first on tmpfs).
        let save_b = || {
            let mut m = a.start_mutation();
            m.add_entry(b"key".to_vec(), b"new".to_vec());
            store.save_table(m).unwrap()
        };
        let save_c = || {
            let mut m = a.start_mutation();
            m.add_entry(b"zzz".to_vec(), b"unrelated".to_vec());
            store.save_table(m).unwrap()
        };
        let (b, c) = if attempt % 2 == 0 {
            let c = save_c();
            (save_b(), c)
        } else {
            let b = save_b();
            (b, save_c())
        };
        let heads = list_heads(tmp.path());
        let merged = TableStore::load(tmp.path().to_path_buf(), 3).get_head().unwrap();
        let got = merged.get_value(b"key").map(|v| String::from_utf8_lossy(v).into_owned());
        println!(
            "attempt {attempt}: A={} B={} (parent {:?}) C={} (parent {:?}) heads={:?} merged key={:?}",
            &a.name()[..8],
            &b.name()[..8],
            b.segment_parent_file().map(|p| &p.name()[..8]),
            &c.name()[..8],
            c.segment_parent_file().map(|p| &p.name()[..8]),
            heads.iter().map(|h| &h[..8]).collect::<Vec<_>>(),
            got
        );
        match got.as_deref() {
            Some("old") => old_wins += 1,
            Some("new") => new_wins += 1,
            _ => {}
        }
    }
    println!("WITNESS later sequential save lost in {old_wins} of {} runs (won in {new_wins})", old_wins + new_wins);
}

/// Minimal scripted witness for the `load.contains_completed_saves*` clauses
/// (heads directory emptied): writer W saves B on top of head A (B keeps A as
/// its parent segment) and is paused between add_head(B) and remove_head(A) -
/// emulated here by putting the head file of A back. A reader's get_head()
/// lists [A, B], merges "B into A", which serializes to exactly B again, adds
/// head B, removes head A (the parent) and then removes head B as one of the
/// merged heads. No head is left; the next load starts from an empty table.
fn witness_heads_emptied() {
    let mut lost = 0;
    for attempt in 0..4u8 {
        let tmp = testutils::new_temp_dir();
        let dir = tmp.path().to_path_buf();
        let store = TableStore::init(dir.clone(), 3);
        let mut m = store.get_head().unwrap().start_mutation();
        for k in [b"aa1", b"aa2", b"aa3", b"aa4"] {
            m.add_entry(k.to_vec(), vec![attempt]);
        }
        let a = store.save_table(m).unwrap();
        let mut m = a.start_mutation();
        m.add_entry(b"bbb".to_vec(), b"B".to_vec());
        let b = store.save_table(m).unwrap();
        // W is between add_head(B) and remove_head(A):
        std::fs::write(dir.join("heads").join(a.name()), "").unwrap();
        let heads_in_window = list_heads(&dir);
        let reader = TableStore::load(dir.clone(), 3);
        let seen = reader.get_head().unwrap();
        // W resumes: remove_head(A)
        std::fs::remove_file(dir.join("heads").join(a.name())).ok();
        let heads_after = list_heads(&dir);
        let later = TableStore::load(dir.clone(), 3).get_head().unwrap();
        println!(
            "attempt {attempt}: B parent is A: {}; heads in window {:?}; reader got {} (== B: {}); heads afterwards {:?}; \
             later load: aa1={:?} bbb={:?}",
            b.segment_parent_file().map(|p| p.name()) == Some(a.name()),
            heads_in_window.iter().map(|h| &h[..8]).collect::<Vec<_>>(),
            &seen.name()[..8],
            seen.name() == b.name(),
            heads_after.iter().map(|h| &h[..8]).collect::<Vec<_>>(),
            later.get_value(b"aa1"),
            later.get_value(b"bbb"),
        );
        if later.get_value(b"aa1").is_none() {
            lost += 1;
        }
    }
    println!("WITNESS all entries of completed saves lost in {lost} of 4 runs");
}

/// Development aid: clauses listed in VERIF_SOFT_CLAUSES (comma separated) are
/// counted instead of reported, so that the remaining clauses can be exercised
/// while a finding is waiting to be registered in known_findings.json.
fn soft_clauses() -> Vec<String> {
    std::env::var("VERIF_SOFT_CLAUSES")
        .map(|s| s.split(',').map(str::to_owned).collect())
        .unwrap_or_default()
}

/// Clauses about saves that disappeared; their signature carries the lock
/// discipline of the case (see `TableCase::profile`).
const LOSS_CLAUSES: &[&str] = &[
    "load.contains_completed_saves",
    "load.contains_completed_saves.at_hook_point",
    "final.completed_save_present",
    "reload.lookup_unchanged.after_merging_load",
];

pub fn run_c21(ctx: &Ctx) -> i32 {
    ctx.set_rule(
        "2-4 TableStore instances on one directory (key size 2/3/5/8; 8 hot keys plus random keys; values \
         of 4..3004 bytes tagged with the save id; each save adds a unique marker key). Ops: save from a \
         fresh get_head, save from a stale table held earlier (divergent heads), save under get_head_locked, \
         get_head (merges divergent heads), instance reload. Three drivers: sequential random histories \
         (strict checks after every op, incl. merged-table-vs-listed-heads and before/after reload), \
         free-running threads with seeded yields at the table/lock/persist hook points, and controlled \
         random interleavings parking actors before every heads read / add / remove / lock (with a disk \
         monitor after every step). All of it once with working flock and once with locking disabled. \
         Offline checker: save B started from a head containing A's marker => A -> B (transitive); every \
         load contains the saves completed before it started; each key's value was written by an included \
         save that no included later writer of the key follows; saved table == base + entries on all known \
         keys (squash or not); jj's lookups == independent parse of the segment files; final fresh load holds \
         every completed save. Non-trivial: the history has two completed saves that are concurrent under \
         happens-before. Distinct: by (driver, key size, lock mode, scripts, seed).",
    );
    if ctx.args.extra.iter().any(|a| a == "--witness") {
        witness_later_save_loses();
        witness_heads_emptied();
        return 0;
    }
    let soft = soft_clauses();
    if !soft.is_empty() {
        ctx.assume(&format!("VERIF_SOFT_CLAUSES set: counted, not reported: {soft:?}"));
    }
    ctx.assume(
        "free-running loads: a get_head() that starts after save_table() returned must contain that save; \
         relies on the heads directory being listed atomically (one getdents call on Linux for a few entries)",
    );
    verif_hooks::set_handler(Some(Arc::new(hook)));
    let tier = ctx.tier();
    let n = tier.pick(2_000, 12_000);
    for no_lock in [false, true] {
        verif_hooks::set_locks_disabled(no_lock);
        par_cases(ctx, n, threads(), |i, cs, rng| {
            let mut rng = if no_lock { Rng::new(cs ^ 0x4E4F_4C4F_434B) } else { rng.clone() };
            let kind = match i % 4 {
                0 | 1 => Kind::Sequential,
                2 => Kind::FreeRunning,
                _ => Kind::Controlled,
            };
            let case = gen_case(&mut rng, kind, no_lock, tier == Tier::Thorough && i % 8 < 4);
            let out = match catch(|| run_table_case(&case)) {
                Caught::Ok(out) => out,
                Caught::SubjectPanic { location, message } => {
                    ctx.violation(
                        &panic_signature(&location, &message),
                        &format!("code under test panicked at {location}: {message}"),
                        json!({"case_index": i, "case_seed": cs, "case": case.json()}),
                    );
                    return;
                }
                Caught::HarnessPanic { location, message } => {
                    ctx.inconclusive(&format!("harness panic at {location}: {} (case {i})", truncate(&message, 300)));
                    return;
                }
            };
            for f in &out.fails {
                let clause = if LOSS_CLAUSES.contains(&f.clause.as_str()) {
                    format!("{}@{}", f.clause, case.profile())
                } else {
                    f.clause.clone()
                };
                if soft.iter().any(|c| c == &clause) {
                    ctx.count(&format!("soft_reported.{clause}"));
                    continue;
                }
                ctx.violation(
                    &clause,
                    &format!("clause {clause}: {}", f.message),
                    json!({"case_index": i, "case_seed": cs, "case": case.json(), "clause": clause, "detail": f.message}),
                );
            }
            if let Some(reason) = &out.inconclusive {
                ctx.inconclusive(&format!("{reason} (case {i}, {:?}, locks_disabled={no_lock})", case.kind));
            }
            let prefix = format!("{:?}{}", case.kind, if no_lock { ".locks_disabled" } else { ".flock" });
            ctx.count(&format!("cases.profile.{}", case.profile()));
            out.obs.flush(ctx, &prefix);
            ctx.count(&format!("cases.{prefix}"));
            ctx.count_n(&format!("steps.{prefix}"), out.steps);
            if no_lock {
                ctx.count("cases_with_locks_disabled");
            }
            if out.final_heads_before_load > 1 {
                ctx.count("cases_ending_with_divergent_heads_merged_by_final_load");
            }
            ctx.max("max_concurrent_save_pairs_in_a_loaded_table", out.obs.concurrent_pairs);
            for (label, c) in &out.points {
                ctx.count_n(&format!("parked_at.{label}"), *c);
            }
            ctx.case(stable_hash(&case), out.nontrivial);
            if out.nontrivial {
                ctx.sample(|| case.json());
            }
        });
    }
    verif_hooks::set_locks_disabled(false);
    verif_hooks::set_handler(None);
    ctx.finish(tier.pick(200, 2000))
}

// ===========================================================================
// C22: changed-path index agrees with tree diffs

mod c22 {
    use std::collections::BTreeSet;
    use std::collections::HashMap;
    use std::sync::Arc;

    use jj_lib::backend::CommitId;
    use jj_lib::commit::Commit;
    use jj_lib::default_index::DefaultIndexStore;
    use jj_lib::default_index::DefaultReadonlyIndex;
    use jj_lib::fileset::FilesetExpression;
    use futures::TryStreamExt as _;
    use jj_lib::merge::Merge;
    use jj_lib::object_id::ObjectId as _;
    use jj_lib::merged_tree::MergedTree;
    use jj_lib::repo::MutableRepo;
    use jj_lib::repo::ReadonlyRepo;
    use jj_lib::repo::Repo;
    use jj_lib::revset::ResolvedRevsetExpression;
    use jj_lib::revset::RevsetExpression;
    use jj_lib::revset::RevsetFilterPredicate;
    use jj_lib::rewrite::merge_commit_trees;
    use jj_lib::rewrite::merge_commit_trees_no_resolve;
    use pollster::FutureExt as _;
    use serde_json::Value;
    use serde_json::json;
    use testutils::TestRepo;

    use crate::common::*;
    use crate::dag::Dag;
    use crate::ensure;
    use crate::model::*;
    use crate::r#gen;

    #[derive(Clone, Debug, Hash)]
    pub enum Step {
        /// one transaction adding n commits
        Extend(usize),
        /// build_changed_path_index_at_operation with this limit
        Build(u32),
        /// concurrent transactions from the same repo; `build_on_side`: that side
        /// commits, builds with the limit, and continues with a second transaction
        Concurrent { sizes: Vec<usize>, build_on_side: Option<(usize, u32)> },
        /// reinit + build_index_at_operation, then Build(limit)
        Rebuild(u32),
        ReloadFromDisk,
    }

    #[derive(Clone, Debug, Hash)]
    pub struct Plan {
        pub pre_commits: usize,
        pub steps: Vec<Step>,
        pub seed: u64,
    }

    impl Plan {
        pub fn json(&self) -> Value {
            json!({"pre_commits": self.pre_commits, "seed": self.seed.to_string(),
                   "steps": self.steps.iter().map(|s| format!("{s:?}")).collect::<Vec<_>>()})
        }
    }

    fn gen_limit(rng: &mut Rng) -> u32 {
        *rng.pick(&[0u32, 0, 1, 1, 2, 3, 5, 1000, u32::MAX])
    }

    pub fn gen_plan(rng: &mut Rng, big: bool) -> Plan {
        let pre_commits = *rng.pick(&[0usize, 0, 2, 5, 9]);
        let mut steps = vec![];
        if rng.chance(3, 4) {
            steps.push(Step::Build(gen_limit(rng)));
        }
        for _ in 0..rng.range(3, if big { 14 } else { 8 }) {
            steps.push(match rng.below(12) {
                0..=3 => Step::Extend(rng.range(1, 5)),
                4..=6 => Step::Build(gen_limit(rng)),
                7..=8 => Step::Concurrent {
                    sizes: (0..rng.range(2, 3)).map(|_| rng.range(1, 3)).collect(),
                    build_on_side: rng.chance(1, 2).then(|| (rng.below(2), gen_limit(rng))),
                },
                9 => Step::Rebuild(gen_limit(rng)),
                10 => Step::ReloadFromDisk,
                _ => Step::Extend(rng.range(1, 2)),
            });
        }
        Plan { pre_commits, steps, seed: rng.next_u64() }
    }

    #[derive(Default)]
    pub struct Seen {
        pub commits: u64,
        pub merges: u64,
        pub indexed_compared: u64,
        pub indexed_merges_compared: u64,
        pub indexed_nonempty: u64,
        pub unindexed: u64,
        pub conflicted_parent_merges: u64,
        pub conflicted_commit_trees: u64,
        pub clean_merge_commits: u64,
        pub revset_queries: u64,
        pub revset_matches: u64,
        pub max_segments: u64,
        pub builds: u64,
        pub rebuilds: u64,
        pub op_merges: u64,
        pub op_merges_mixed_enablement: u64,
        pub partial_ranges: u64,
        pub full_ranges: u64,
        pub steps_with_index_enabled: u64,
        pub disk_reloads: u64,
        /// findings of the separately-keyed clause (reported after the case; the case goes on)
        pub keyed: Vec<Fail>,
        pub keyed_commits: u64,
    }

    struct State {
        test_repo: TestRepo,
        repo: Arc<ReadonlyRepo>,
        dag: Dag,
        pool: Vec<Vec<u8>>,
        expected: HashMap<CommitId, BTreeSet<String>>,
        tolerated: HashMap<CommitId, BTreeSet<String>>,
    }

    fn index_store(repo: &ReadonlyRepo) -> &DefaultIndexStore {
        repo.index_store().downcast_ref().expect("default index store")
    }

    /// Adds `n` commits whose parents come from `allowed` (grows with the new commits).
    fn grow(rng: &mut Rng, mut_repo: &mut MutableRepo, dag: &mut Dag, allowed: &mut Vec<usize>, n: usize, pool: &[Vec<u8>], seen: &mut Seen) {
        for _ in 0..n {
            let non_root: Vec<usize> = allowed.iter().copied().filter(|i| *i != 0).collect();
            let want_merge = non_root.len() >= 2 && rng.chance(35, 100);
            let mut parents: Vec<usize> = vec![];
            if want_merge {
                let k = rng.range(2, 3.min(non_root.len()));
                while parents.len() < k {
                    let p = if rng.chance(2, 3) {
                        non_root[non_root.len() - 1 - rng.below(non_root.len().min(4))]
                    } else {
                        *rng.pick(&non_root)
                    };
                    if !parents.contains(&p) {
                        parents.push(p);
                    }
                }
            } else {
                let p = if rng.chance(2, 3) { allowed[allowed.len() - 1 - rng.below(allowed.len().min(3))] } else { *rng.pick(allowed) };
                parents.push(p);
            }
            let parent_commits: Vec<Commit> = parents.iter().map(|p| dag.commit(*p).clone()).collect();
            let store = mut_repo.store().clone();
            // Tree: a mutation of the first parent's tree, or (merges) based on the
            // automatic merge of the parents: as is (possibly conflicted), or resolved + edits.
            let first_model = dag.nodes[parents[0]].tree.clone();
            let (tree, model): (MergedTree, Option<TreeModel>) = if parents.len() > 1 && rng.chance(1, 2) {
                let merged = merge_commit_trees(mut_repo, &parent_commits).block_on().expect("merge parents");
                if merged.has_conflict() {
                    seen.conflicted_commit_trees += 1;
                    (merged, None)
                } else {
                    let base = read_resolved_tree(&merged);
                    let m = mutate_tree(rng, &base, pool, 1);
                    if m == base {
                        seen.clean_merge_commits += 1;
                    }
                    (write_tree(&store, &m), Some(m))
                }
            } else {
                let base = first_model.unwrap_or_else(|| gen_tree(rng, pool, 4));
                let m = mutate_tree(rng, &base, pool, 3);
                (write_tree(&store, &m), Some(m))
            };
            let commit = mut_repo
                .new_commit(parents.iter().map(|p| dag.id(*p).clone()).collect(), tree)
                .set_description(format!("c{}", dag.len()))
                .write()
                .block_on()
                .expect("write commit");
            let i = dag.add(commit, model);
            allowed.push(i);
            seen.commits += 1;
            if parents.len() > 1 {
                seen.merges += 1;
            }
        }
    }

    fn normalize(v: jj_lib::backend::MergedTreeValue) -> jj_lib::backend::MergedTreeValue {
        if v.is_tree() { Merge::absent() } else { v }
    }

    fn leaf_paths(tree: &MergedTree) -> Vec<String> {
        tree.entries()
            .map(|(path, value)| {
                value.expect("tree entry readable");
                path.as_internal_file_string().to_owned()
            })
            .collect()
    }

    /// Paths whose value differs between the automatic merge of the parents
    /// and the commit's tree.
    fn expected_changed(st: &mut State, i: usize, seen: &mut Seen) -> BTreeSet<String> {
        let id = st.dag.id(i).clone();
        if let Some(e) = st.expected.get(&id) {
            return e.clone();
        }
        let node = &st.dag.nodes[i];
        let out: BTreeSet<String> = if node.parents.is_empty() {
            BTreeSet::new()
        } else if node.parents.len() == 1 && node.tree.is_some() && st.dag.nodes[node.parents[0]].tree.is_some() {
            let a = st.dag.nodes[node.parents[0]].tree.as_ref().unwrap();
            let b = node.tree.as_ref().unwrap();
            a.keys().chain(b.keys()).filter(|p| a.get(*p) != b.get(*p)).cloned().collect()
        } else {
            let parents: Vec<Commit> = node.parents.iter().map(|p| st.dag.commit(*p).clone()).collect();
            let before = merge_commit_trees(st.repo.as_ref(), &parents).block_on().expect("merge_commit_trees");
            if node.parents.len() > 1 && before.has_conflict() {
                seen.conflicted_parent_merges += 1;
            }
            let after = node.commit.tree();
            let mut candidates: BTreeSet<String> = leaf_paths(&before).into_iter().collect();
            candidates.extend(leaf_paths(&after));
            candidates
                .into_iter()
                .filter(|p| {
                    let rpath = rp(p);
                    let b = normalize(before.path_value(&rpath).block_on().expect("path_value"));
                    let a = normalize(after.path_value(&rpath).block_on().expect("path_value"));
                    a != b
                })
                .collect()
        };
        st.expected.insert(id, out.clone());
        out
    }

    /// Paths at which the commit's value equals the resolved merge of its
    /// parents, but differs from the *unresolved, unsimplified* merge of the
    /// parents as a term list (e.g. `[absent, absent, tree, absent, file]` vs
    /// `[tree, absent, file]`). jj's diff against the parents reports such a
    /// path although the contents are the same; findings confined to these
    /// paths get their own clause signature.
    fn tolerated_paths(st: &mut State, i: usize) -> BTreeSet<String> {
        let id = st.dag.id(i).clone();
        if let Some(t) = st.tolerated.get(&id) {
            return t.clone();
        }
        let node = &st.dag.nodes[i];
        let out: BTreeSet<String> = if node.parents.len() < 2 {
            BTreeSet::new()
        } else {
            let parents: Vec<Commit> = node.parents.iter().map(|p| st.dag.commit(*p).clone()).collect();
            let unresolved = merge_commit_trees_no_resolve(st.repo.as_ref(), &parents).block_on().expect("merge");
            let resolved = merge_commit_trees(st.repo.as_ref(), &parents).block_on().expect("merge");
            let after = node.commit.tree();
            let mut candidates: BTreeSet<String> = leaf_paths(&unresolved).into_iter().collect();
            candidates.extend(leaf_paths(&resolved));
            candidates.extend(leaf_paths(&after));
            // directories too: a matcher naming a directory makes the diff look at its value
            let dirs: Vec<String> = all_dir_prefixes(&candidates);
            candidates.extend(dirs);
            candidates
                .into_iter()
                .filter(|p| {
                    let rpath = rp(p);
                    let u = unresolved.path_value(&rpath).block_on().expect("path_value");
                    let r_raw = resolved.path_value(&rpath).block_on().expect("path_value");
                    let r = normalize(r_raw.clone());
                    let a_raw = after.path_value(&rpath).block_on().expect("path_value");
                    let a = normalize(a_raw.clone());
                    if r == a && u != a_raw && !u.is_resolved() {
                        return true;
                    }
                    // Same class, wider: jj compares conflict term lists literally.
                    // Values that denote the same thing but differ in term order or
                    // arity are neither required nor forbidden to be recorded.
                    let den = |m: &jj_lib::backend::MergedTreeValue| {
                        crate::p_merge::den_terms(&m.iter().map(|t| format!("{t:?}")).collect::<Vec<_>>())
                    };
                    if r_raw != a_raw && den(&r_raw) == den(&a_raw) {
                        return true;
                    }
                    // A file/directory clash at the path or above it: jj reports
                    // the clash point, the oracle enumerates leaves below it.
                    let is_clash = |m: &jj_lib::backend::MergedTreeValue| {
                        let has_tree = m.iter().any(|t| matches!(t, Some(jj_lib::backend::TreeValue::Tree(_))));
                        let has_other = m.iter().any(|t| !matches!(t, Some(jj_lib::backend::TreeValue::Tree(_)) | None));
                        !m.is_resolved() && has_tree && has_other
                    };
                    let comps: Vec<&str> = p.split('/').collect();
                    (1..=comps.len()).any(|k| {
                        let q = rp(&comps[..k].join("/"));
                        [&unresolved, &resolved, &after]
                            .iter()
                            .any(|t| is_clash(&t.path_value(&q).block_on().expect("path_value")))
                    })
                })
                .collect()
        };
        st.tolerated.insert(id, out.clone());
        out
    }

    fn all_dir_prefixes(paths: &BTreeSet<String>) -> Vec<String> {
        let mut out = BTreeSet::new();
        for p in paths {
            let comps: Vec<&str> = p.split('/').collect();
            for k in 1..comps.len() {
                out.insert(comps[..k].join("/"));
            }
        }
        out.into_iter().collect()
    }

    fn keyed(seen: &mut Seen, clause: &str, message: String) {
        if !seen.keyed.iter().any(|f| f.clause == clause) {
            seen.keyed.push(Fail { clause: clause.to_owned(), message });
        }
    }

    fn eval_ids(repo: &ReadonlyRepo, expr: Arc<ResolvedRevsetExpression>) -> Result<BTreeSet<CommitId>, String> {
        let revset = expr.evaluate(repo).map_err(|e| format!("evaluate: {e}"))?;
        let ids: Vec<CommitId> = revset.stream().try_collect::<Vec<_>>().block_on().map_err(|e| format!("stream: {e}"))?;
        Ok(ids.into_iter().collect())
    }

    fn verify(st: &mut State, rng: &mut Rng, after: &str, seen: &mut Seen) -> Check {
        let repo = st.repo.clone();
        let ro: &DefaultReadonlyIndex = repo.readonly_index().downcast_ref().expect("default readonly index");
        let stats = ro.stats();
        seen.max_segments = seen.max_segments.max(stats.changed_path_levels.len() as u64);
        if let Some(range) = &stats.changed_path_commits_range {
            seen.steps_with_index_enabled += 1;
            if range.start == 0 && range.end == stats.num_commits {
                seen.full_ranges += 1;
            } else if !range.is_empty() {
                seen.partial_ranges += 1;
            }
        }
        let mut all_expected: Vec<(usize, BTreeSet<String>)> = vec![];
        for i in 0..st.dag.len() {
            let expected = expected_changed(st, i, seen);
            let id = st.dag.id(i).clone();
            let got = repo
                .index()
                .changed_paths_in_commit(&id)
                .block_on()
                .map_err(|e| Fail { clause: "changed_paths_in_commit.error".into(), message: format!("{e}") })?;
            match got {
                None => seen.unindexed += 1,
                Some(paths) => {
                    let got_vec: Vec<String> = paths.map(|p| p.as_internal_file_string().to_owned()).collect();
                    let got: BTreeSet<String> = got_vec.iter().cloned().collect();
                    seen.indexed_compared += 1;
                    if st.dag.nodes[i].parents.len() > 1 {
                        seen.indexed_merges_compared += 1;
                    }
                    if !expected.is_empty() {
                        seen.indexed_nonempty += 1;
                    }
                    let mut detail = String::new();
                    if got != expected {
                        let parents: Vec<Commit> = st.dag.nodes[i].parents.iter().map(|p| st.dag.commit(*p).clone()).collect();
                        let unresolved = merge_commit_trees_no_resolve(repo.as_ref(), &parents).block_on().expect("merge");
                        let resolved = merge_commit_trees(repo.as_ref(), &parents).block_on().expect("merge");
                        let after_tree = st.dag.commit(i).tree();
                        for p in got.symmetric_difference(&expected) {
                            let rpath = rp(p);
                            detail.push_str(&format!(
                                "\n  at {p:?}: parents merged without resolving {:?}\n    parents merged and resolved {:?}\n    commit {:?}",
                                unresolved.path_value(&rpath).block_on().ok(),
                                resolved.path_value(&rpath).block_on().ok(),
                                after_tree.path_value(&rpath).block_on().ok()
                            ));
                        }
                    }
                    if got != expected {
                        let tolerated = tolerated_paths(st, i);
                        if got.symmetric_difference(&expected).all(|p| tolerated.contains(p)) {
                            seen.keyed_commits += 1;
                            keyed(
                                seen,
                                "changed_paths.merge_commit.unsimplified_parent_conflict",
                                format!(
                                    "after {after}: commit #{i} ({}; parents {:?}): index records {:?}, but the commit's \
                                     value at the extra paths equals the resolved merge of the parents{detail}",
                                    &id.hex()[..12],
                                    st.dag.nodes[i].parents,
                                    got
                                ),
                            );
                            all_expected.push((i, expected));
                            continue;
                        }
                    }
                    ensure!(
                        got == expected,
                        if st.dag.nodes[i].parents.len() > 1 { "changed_paths.merge_commit" } else { "changed_paths.single_parent" },
                        "after {after}: commit #{i} ({}; parents {:?}; index range {:?}, {} segments): index records {:?}, \
                         trees differ at {:?}{detail}",
                        &id.hex()[..12],
                        st.dag.nodes[i].parents,
                        stats.changed_path_commits_range,
                        stats.changed_path_levels.len(),
                        got,
                        expected
                    );
                    ensure!(
                        got_vec.len() == got.len() && got_vec.windows(2).all(|w| rp(&w[0]) < rp(&w[1])),
                        "changed_paths.sorted_unique",
                        "after {after}: commit #{i}: recorded paths {:?} are not strictly sorted",
                        got_vec
                    );
                }
            }
            all_expected.push((i, expected));
        }
        // files()-filtered revsets against a brute-force scan of the expected sets.
        let all_ids: Vec<CommitId> = (0..st.dag.len()).map(|i| st.dag.id(i).clone()).collect();
        for _ in 0..3 {
            let q = *rng.pick(&["a", "a/b", "a/b/c", "a/g", "d", "d/e", "d/e/h", "f", "k", "k/l", "zz"]);
            let exact = rng.chance(1, 3);
            let fileset = if exact { FilesetExpression::file_path(rp(q)) } else { FilesetExpression::prefix_path(rp(q)) };
            let domain: Arc<ResolvedRevsetExpression> = RevsetExpression::commits(all_ids.clone());
            let expr = domain.filtered(RevsetFilterPredicate::File(fileset));
            let got = eval_ids(&repo, expr).map_err(|m| Fail { clause: "files_revset.error".into(), message: m })?;
            let prefix = format!("{q}/");
            let want: BTreeSet<CommitId> = all_expected
                .iter()
                .filter(|(_, paths)| paths.iter().any(|p| p == q || (!exact && p.starts_with(&prefix))))
                .map(|(i, _)| st.dag.id(*i).clone())
                .collect();
            seen.revset_queries += 1;
            seen.revset_matches += want.len() as u64;
            if got != want {
                let mut lenient: BTreeSet<CommitId> = BTreeSet::new();
                for (i, _) in &all_expected {
                    let t = tolerated_paths(st, *i);
                    // a tolerated path at, below or above the queried path
                    if t.iter().any(|p| p == q || p.starts_with(&prefix) || q.starts_with(&format!("{p}/"))) {
                        lenient.insert(st.dag.id(*i).clone());
                    }
                }
                if got.symmetric_difference(&want).all(|id| lenient.contains(id)) {
                    keyed(
                        seen,
                        "files_revset.same_commits_as_scan.unsimplified_parent_conflict",
                        format!(
                            "after {after}: files({}{q:?}): revset also returns commits {:?}, whose value at the matching \
                             paths equals the resolved merge of their parents (unsimplified conflict in the parents)",
                            if exact { "file:" } else { "" },
                            got.difference(&want).map(|id| st.dag.idx(id)).collect::<Vec<_>>()
                        ),
                    );
                    continue;
                }
            }
            let mut detail = String::new();
            if got != want {
                for id in got.symmetric_difference(&want) {
                    let Some(i) = st.dag.idx(id) else { continue };
                    let parents: Vec<Commit> = st.dag.nodes[i].parents.iter().map(|p| st.dag.commit(*p).clone()).collect();
                    let unresolved = merge_commit_trees_no_resolve(repo.as_ref(), &parents).block_on().expect("merge");
                    let resolved = merge_commit_trees(repo.as_ref(), &parents).block_on().expect("merge");
                    let rpath = rp(q);
                    let tolerated = tolerated_paths(st, i);
                    detail.push_str(&format!(
                        "\n  commit #{i} parents {:?} expected paths {:?} tolerated {:?}\n    at {q:?}: unresolved parents {:?}\n    resolved parents {:?}\n    commit {:?}",
                        st.dag.nodes[i].parents,
                        all_expected.iter().find(|(j, _)| *j == i).map(|(_, e)| e.clone()),
                        tolerated,
                        unresolved.path_value(&rpath).block_on().ok(),
                        resolved.path_value(&rpath).block_on().ok(),
                        st.dag.commit(i).tree().path_value(&rpath).block_on().ok()
                    ));
                }
            }
            ensure!(
                got == want,
                "files_revset.same_commits_as_scan",
                "after {after}: files({}{q:?}) with index range {:?}: revset returns commits {:?}, brute-force scan {:?}{detail}",
                if exact { "file:" } else { "" },
                stats.changed_path_commits_range,
                got.iter().map(|id| st.dag.idx(id)).collect::<Vec<_>>(),
                want.iter().map(|id| st.dag.idx(id)).collect::<Vec<_>>()
            );
        }
        Ok(())
    }

    fn build(st: &mut State, limit: u32, seen: &mut Seen) -> Check {
        let repo = st.repo.clone();
        index_store(&repo)
            .build_changed_path_index_at_operation(repo.op_id(), repo.store(), limit, |_| ())
            .block_on()
            .map_err(|e| Fail { clause: "build_changed_path_index.error".into(), message: format!("limit {limit}: {e:?}") })?;
        st.repo = repo.reload_at(repo.operation()).block_on().expect("reload_at");
        seen.builds += 1;
        Ok(())
    }

    fn enabled(repo: &ReadonlyRepo) -> bool {
        let ro: &DefaultReadonlyIndex = repo.readonly_index().downcast_ref().expect("default readonly index");
        ro.stats().changed_path_commits_range.is_some()
    }

    pub fn run_plan(plan: &Plan, seen: &mut Seen) -> Check {
        let mut rng = Rng::new(plan.seed);
        let test_repo = TestRepo::init();
        let repo = test_repo.repo.clone();
        let dag = Dag::new(repo.store());
        let pool = r#gen::line_pool(&mut rng, 4, false);
        let mut st = State { test_repo, repo, dag, pool, expected: HashMap::new(), tolerated: HashMap::new() };
        if plan.pre_commits > 0 {
            let mut tx = st.repo.start_transaction();
            let mut allowed: Vec<usize> = (0..st.dag.len()).collect();
            grow(&mut rng, tx.repo_mut(), &mut st.dag, &mut allowed, plan.pre_commits, &st.pool.clone(), seen);
            st.repo = tx.commit("pre").block_on().expect("commit");
        }
        for (k, step) in plan.steps.iter().enumerate() {
            let after = format!("step {k} {step:?}");
            match step {
                Step::Extend(n) => {
                    let mut tx = st.repo.start_transaction();
                    let mut allowed: Vec<usize> = (0..st.dag.len()).collect();
                    grow(&mut rng, tx.repo_mut(), &mut st.dag, &mut allowed, *n, &st.pool.clone(), seen);
                    st.repo = tx.commit("extend").block_on().expect("commit");
                }
                Step::Build(limit) => build(&mut st, *limit, seen)?,
                Step::Concurrent { sizes, build_on_side } => {
                    let base_repo = st.repo.clone();
                    let base_len = st.dag.len();
                    // When the index is not enabled yet, one side always enables it
                    // (operation merge of an enabled and a disabled side).
                    let build_on_side = &build_on_side.or_else(|| (!enabled(&base_repo)).then_some((0usize, 2u32)));
                    let pool = st.pool.clone();
                    let mut sides: Vec<Dag> = vec![];
                    let mut enabled_flags = vec![];
                    for (s, n) in sizes.iter().enumerate() {
                        let mut side = st.dag.clone();
                        let mut allowed: Vec<usize> = (0..base_len).collect();
                        let mut tx = base_repo.start_transaction();
                        grow(&mut rng, tx.repo_mut(), &mut side, &mut allowed, *n, &pool, seen);
                        let mut side_repo = tx.commit("side").block_on().expect("commit");
                        if let Some((which, limit)) = build_on_side
                            && *which == s
                        {
                            let keep = std::mem::replace(&mut st.repo, side_repo);
                            build(&mut st, *limit, seen)?;
                            side_repo = std::mem::replace(&mut st.repo, keep);
                            let mut tx = side_repo.start_transaction();
                            grow(&mut rng, tx.repo_mut(), &mut side, &mut allowed, 1, &pool, seen);
                            side_repo = tx.commit("side, second transaction").block_on().expect("commit");
                        }
                        enabled_flags.push(enabled(&side_repo));
                        sides.push(side);
                    }
                    for side in &sides {
                        for i in base_len..side.len() {
                            st.dag.add(side.commit(i).clone(), side.nodes[i].tree.clone());
                        }
                    }
                    st.repo = base_repo.loader().load_at_head().block_on().expect("load_at_head merges the operations");
                    seen.op_merges += 1;
                    if enabled_flags.iter().any(|e| *e) && enabled_flags.iter().any(|e| !*e) {
                        seen.op_merges_mixed_enablement += 1;
                    }
                }
                Step::Rebuild(limit) => {
                    let repo = st.repo.clone();
                    let store = index_store(&repo);
                    store.reinit().expect("reinit index store");
                    store
                        .build_index_at_operation(repo.operation(), repo.store())
                        .block_on()
                        .expect("rebuild commit index from scratch");
                    st.repo = repo.reload_at(repo.operation()).block_on().expect("reload_at");
                    seen.rebuilds += 1;
                    build(&mut st, *limit, seen)?;
                }
                Step::ReloadFromDisk => {
                    let settings = testutils::user_settings();
                    let fresh = st.test_repo.env.load_repo_at_head(&settings, st.test_repo.repo_path());
                    assert!(fresh.op_id() == st.repo.op_id(), "fresh load must see the same head operation");
                    st.repo = fresh;
                    seen.disk_reloads += 1;
                }
            }
            verify(&mut st, &mut rng, &after, seen)?;
        }
        Ok(())
    }
}

pub fn run_c22(ctx: &Ctx) -> i32 {
    ctx.set_rule(
        "random histories on a TestRepo (9-path universe with file<->directory swaps, executables, symlinks; \
         35% merges with 2-3 parents whose tree is a mutation of the first parent, the clean automatic merge \
         (+0..1 edits) or the conflicted automatic merge as is), optionally some commits before the index is \
         enabled; then random steps: transaction adding commits, build_changed_path_index_at_operation with \
         limits 0/1/2/3/5/1000/MAX, 2-3 concurrent transactions (optionally one side builds the index and \
         continues) merged by load_at_head, reinit + rebuild of the commit index followed by a build, reload \
         from disk. After every step every commit's changed_paths_in_commit (when Some) must equal the paths \
         whose value differs between merge_commit_trees(parents) and the commit's tree (tree model for \
         single-parent commits with resolved trees; path_value comparison over all leaf paths otherwise), \
         and files(prefix|file) revsets over all commits must equal a brute-force scan of those sets. \
         Non-trivial: at least one indexed merge commit was compared and the index was extended, merged or \
         rebuilt after being enabled. Distinct: by plan (steps, limits, seed).",
    );
    let tier = ctx.tier();
    let soft = soft_clauses();
    if !soft.is_empty() {
        ctx.assume(&format!("VERIF_SOFT_CLAUSES set: counted, not reported: {soft:?}"));
    }
    ctx.assume("merge_commit_trees / path_value / entries() are trusted here (monitored by C07/C08)");
    let n = tier.pick(320, 6000);
    par_cases(ctx, n, threads(), |i, cs, rng| {
        let plan = c22::gen_plan(rng, tier == Tier::Thorough && i % 4 == 0);
        let mut seen = c22::Seen::default();
        run_case(ctx, i, cs, || plan.json(), || c22::run_plan(&plan, &mut seen));
        for f in &seen.keyed {
            if soft.iter().any(|c| c == &f.clause) {
                ctx.count(&format!("soft_reported.{}", f.clause));
                continue;
            }
            ctx.violation(
                &f.clause,
                &format!("clause {}: {}", f.clause, f.message),
                json!({"case_index": i, "case_seed": cs, "case": plan.json(), "clause": f.clause, "detail": f.message}),
            );
        }
        ctx.count_n("commits_recording_paths_of_unsimplified_parent_conflicts", seen.keyed_commits);
        let nontrivial = seen.indexed_merges_compared > 0 && seen.steps_with_index_enabled >= 2;
        ctx.case(stable_hash(&plan), nontrivial);
        for (k, v) in [
            ("commits_written", seen.commits),
            ("merge_commits_written", seen.merges),
            ("indexed_commits_compared", seen.indexed_compared),
            ("indexed_merge_commits_compared", seen.indexed_merges_compared),
            ("indexed_commits_with_nonempty_expected_set", seen.indexed_nonempty),
            ("unindexed_commit_lookups_returning_none", seen.unindexed),
            ("merge_commits_whose_parent_merge_is_conflicted", seen.conflicted_parent_merges),
            ("commits_with_conflicted_tree", seen.conflicted_commit_trees),
            ("merge_commits_equal_to_clean_automatic_merge", seen.clean_merge_commits),
            ("files_revset_queries", seen.revset_queries),
            ("files_revset_expected_matches", seen.revset_matches),
            ("incremental_builds", seen.builds),
            ("rebuilds_from_scratch", seen.rebuilds),
            ("concurrent_operation_merges", seen.op_merges),
            ("concurrent_operation_merges_with_index_enabled_on_some_sides_only", seen.op_merges_mixed_enablement),
            ("verifications_with_partial_index_range", seen.partial_ranges),
            ("verifications_with_full_index_range", seen.full_ranges),
            ("verifications_with_index_enabled", seen.steps_with_index_enabled),
            ("reloads_from_disk", seen.disk_reloads),
        ] {
            ctx.count_n(k, v);
        }
        ctx.max("max_changed_path_segments", seen.max_segments);
        if nontrivial {
            ctx.sample(|| plan.json());
        }
    });
    ctx.finish(tier.pick(60, 1500))
}
