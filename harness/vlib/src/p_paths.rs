//! C32 (workspace path conversion) and C33 (git ref names <-> symbols).

use std::collections::HashMap;
use std::path::Component;
use std::path::Path;
use std::path::PathBuf;

use jj_lib::git;
use jj_lib::git::GitRefKind;
use jj_lib::ref_name::GitRefName;
use jj_lib::ref_name::RefName;
use jj_lib::ref_name::RemoteName;
use jj_lib::ref_name::RemoteRefSymbol;
use jj_lib::repo_path::RepoPath;
use jj_lib::repo_path::RepoPathBuf;
use jj_lib::repo_path::RepoPathUiConverter;
use serde_json::json;

use crate::common::*;
use crate::ensure;

const NORMAL: &[&str] = &["a", "b", "src", "é", "日本", "a b", ".hidden", "..x", "x..", "...", "a\\b", "C:", "-", "~"];

fn gen_fs_component(rng: &mut Rng) -> String {
    match rng.below(12) {
        0 => ".".to_owned(),
        1 | 2 => "..".to_owned(),
        3 => String::new(),
        _ => (*rng.pick(NORMAL)).to_owned(),
    }
}

/// Lexical reference: resolves `.`/`..`/empty components of `cwd/input`.
/// Returns None when `..` would climb above `/`.
fn lexical_abs(cwd: &str, input: &str) -> Vec<String> {
    let mut out: Vec<String> = vec![];
    let joined = if input.starts_with('/') { input.to_owned() } else { format!("{cwd}/{input}") };
    for c in joined.split('/') {
        match c {
            "" | "." => {}
            ".." => {
                // `/..` is `/` for normalize_path? It keeps ".." after RootDir.
                if out.is_empty() {
                    out.push("..".to_owned());
                } else if out.last().unwrap() == ".." {
                    out.push("..".to_owned());
                } else {
                    out.pop();
                }
            }
            c => out.push(c.to_owned()),
        }
    }
    out
}

fn check_fs_to_repo(cwd: &str, base: &str, input: &str) -> Result<&'static str, Fail> {
    let got = RepoPathBuf::parse_fs_path(Path::new(cwd), Path::new(base), input);
    let abs = lexical_abs(cwd, input);
    let base_comps: Vec<String> = base.split('/').filter(|c| !c.is_empty()).map(|c| c.to_owned()).collect();
    let inside = abs.len() >= base_comps.len()
        && abs[..base_comps.len()] == base_comps[..]
        && !abs.iter().any(|c| c == "..");
    match (&got, inside) {
        (Ok(p), true) => {
            let want = abs[base_comps.len()..].join("/");
            ensure!(
                p.as_internal_file_string() == want,
                "parse_fs_path.value",
                "cwd={:?} base={:?} input={:?}: got {:?}, lexical reference {:?}",
                cwd,
                base,
                input,
                p,
                want
            );
            for c in p.components() {
                let s = c.as_internal_str();
                ensure!(
                    !s.is_empty() && s != "." && s != ".." && !s.contains('/'),
                    "parse_fs_path.no_special_components",
                    "component {:?} in {:?}",
                    s,
                    p
                );
            }
            // Round trip back to the file system.
            let back = p.to_fs_path(Path::new(base)).map_err(|e| Fail {
                clause: "roundtrip.to_fs_path".into(),
                message: format!("{p:?} cannot be converted back: {e}"),
            })?;
            let want_fs: PathBuf = if abs.is_empty() {
                PathBuf::from("/")
            } else {
                PathBuf::from(format!("/{}", abs.join("/")))
            };
            ensure!(
                back == want_fs,
                "roundtrip.fs_path",
                "input {:?} -> {:?} -> {:?}, expected {:?}",
                input,
                p,
                back,
                want_fs
            );
            Ok("inside")
        }
        (Err(_), false) => Ok("outside_rejected"),
        (Ok(p), false) => fail(
            "parse_fs_path.rejects_outside",
            format!("cwd={cwd:?} base={base:?} input={input:?} is outside the workspace but parsed to {p:?}"),
        )
        .map(|_| ""),
        (Err(e), true) => fail(
            "parse_fs_path.accepts_inside",
            format!("cwd={cwd:?} base={base:?} input={input:?} is inside the workspace but was rejected: {e}"),
        )
        .map(|_| ""),
    }
}

fn check_relative(input: &str) -> Result<&'static str, Fail> {
    let got = RepoPathBuf::from_relative_path(input);
    // Reference on std's component model: only Normal components are allowed
    // ("." alone is the root).
    let comps: Vec<Component> = Path::new(input).components().collect();
    let all_normal = comps.iter().all(|c| matches!(c, Component::Normal(_)));
    if comps.len() == 1 && comps[0] == Component::CurDir {
        // "." and anything std considers equal to it ("./.", "././") is the root.
        ensure!(
            got.as_ref().is_ok_and(|p| p.is_root()),
            "from_relative_path.dot_is_root",
            "{:?}",
            got
        );
        return Ok("root");
    }
    match (got, all_normal) {
        (Ok(p), true) => {
            let want: Vec<&str> = input.split('/').filter(|c| !c.is_empty() && *c != ".").collect();
            ensure!(
                p.as_internal_file_string() == want.join("/"),
                "from_relative_path.value",
                "{:?} -> {:?}, expected {:?}",
                input,
                p,
                want.join("/")
            );
            let base = Path::new("/base/dir");
            let fs = p.to_fs_path(base).map_err(|e| Fail {
                clause: "from_relative_path.to_fs_path".into(),
                message: e.to_string(),
            })?;
            let mut want_fs = base.to_owned();
            for c in &want {
                want_fs.push(c);
            }
            ensure!(fs == want_fs, "from_relative_path.to_fs_equals_join", "{:?} vs {:?}", fs, want_fs);
            Ok("accepted")
        }
        (Err(_), false) => Ok("rejected"),
        (Ok(p), false) => fail(
            "from_relative_path.rejects_special",
            format!("{input:?} has non-normal components but converted to {p:?}"),
        )
        .map(|_| ""),
        (Err(e), true) => fail(
            "from_relative_path.accepts_normal",
            format!("{input:?} has only normal components but was rejected: {e}"),
        )
        .map(|_| ""),
    }
}

fn check_repo_to_fs(internal: &str, base: &str) -> Result<&'static str, Fail> {
    let Ok(p) = RepoPath::from_internal_string(internal) else {
        ensure!(
            internal.starts_with('/') || internal.ends_with('/') || internal.contains("//"),
            "from_internal_string.rejects_only_empty_components",
            "{:?} rejected",
            internal
        );
        return Ok("invalid_internal");
    };
    let comps: Vec<&str> = if internal.is_empty() { vec![] } else { internal.split('/').collect() };
    let bad = comps.iter().any(|c| *c == "." || *c == ".." || c.is_empty());
    match p.to_fs_path(Path::new(base)) {
        Ok(fs) => {
            ensure!(
                !bad,
                "to_fs_path.rejects_dot_components",
                "{:?} converted to {:?}",
                internal,
                fs
            );
            ensure!(
                fs.starts_with(base),
                "to_fs_path.confined",
                "{:?} -> {:?} is not under {:?}",
                internal,
                fs,
                base
            );
            let norm = jj_lib::file_util::normalize_path(&fs);
            ensure!(
                norm == fs,
                "to_fs_path.already_normal",
                "{:?} -> {:?} normalizes to {:?}",
                internal,
                fs,
                norm
            );
            let nbase = Path::new(base).components().count();
            ensure!(
                fs.components().count() == nbase + comps.len(),
                "to_fs_path.component_count",
                "{:?} -> {:?}",
                internal,
                fs
            );
            // and back
            let back = RepoPathBuf::parse_fs_path(Path::new(base), Path::new(base), &fs);
            ensure!(
                back.as_ref().is_ok_and(|b| b.as_internal_file_string() == internal),
                "roundtrip.repo_path",
                "{:?} -> {:?} -> {:?}",
                internal,
                fs,
                back
            );
            Ok("converted")
        }
        Err(_) => {
            ensure!(bad, "to_fs_path.accepts_normal", "{:?} rejected", internal);
            Ok("rejected")
        }
    }
}

fn check_ui_roundtrip(cwd: &str, base: &str, internal: &str) -> Check {
    let p = RepoPath::from_internal_string(internal).unwrap();
    let conv = RepoPathUiConverter::Fs { cwd: PathBuf::from(cwd), base: PathBuf::from(base) };
    let shown = conv.format_file_path(p);
    let parsed = conv.parse_file_path(&shown);
    ensure!(
        parsed.as_ref().is_ok_and(|q| q.as_internal_file_string() == internal),
        "ui.format_then_parse",
        "cwd={:?} base={:?}: {:?} formatted as {:?} parsed back to {:?}",
        cwd,
        base,
        internal,
        shown,
        parsed
    );
    Ok(())
}

pub fn run_c32(ctx: &Ctx) -> i32 {
    ctx.set_rule(
        "random cwd/base (cwd inside, equal to, above or beside the workspace) and inputs built from \
         normal, '.', '..', empty (doubled separator), unicode, leading-dot and backslash components, \
         relative and absolute; random internal repo-path strings incl. '.', '..' components. \
         Reference: lexical normalisation on strings. Non-trivial: input has a '.', '..' or empty \
         component, or is absolute. Distinct: by (cwd, base, input).",
    );
    let n = ctx.tier().pick(3_000_000, 10_000_000);
    par_cases(ctx, n, threads(), |i, cs, rng| {
        let base_depth = rng.range(1, 3);
        let base_comps: Vec<String> = (0..base_depth).map(|_| (*rng.pick(&["ws", "home", "r", "é"])).to_owned()).collect();
        let base = format!("/{}", base_comps.join("/"));
        let cwd = match rng.below(6) {
            0 => base.clone(),
            1 => "/".to_owned() + &base_comps[..base_depth - 1].join("/"),
            2 => format!("/other/{}", rng.pick(NORMAL)),
            _ => {
                let extra: Vec<String> = (0..rng.range(1, 3)).map(|_| (*rng.pick(NORMAL)).to_owned()).collect();
                format!("{base}/{}", extra.join("/"))
            }
        };
        let cwd = if cwd == "/" { "/".to_owned() } else { cwd.trim_end_matches('/').to_owned() };
        let cwd = if cwd.is_empty() { "/".to_owned() } else { cwd };
        let ncomp = rng.range(1, 5);
        let comps: Vec<String> = (0..ncomp).map(|_| gen_fs_component(rng)).collect();
        let mut input = comps.join("/");
        if rng.chance(1, 6) {
            input = format!("{base}/{input}");
        } else if rng.chance(1, 12) {
            input = format!("/{input}");
        }
        if input.is_empty() {
            input = ".".to_owned();
        }
        let internal: String = (0..rng.range(0, 4))
            .map(|_| match rng.below(10) {
                0 => ".".to_owned(),
                1 => "..".to_owned(),
                _ => (*rng.pick(NORMAL)).to_owned(),
            })
            .collect::<Vec<_>>()
            .join("/");
        let rel_input = comps.join("/");
        let describe = || json!({"cwd": cwd, "base": base, "input": input, "relative_input": rel_input, "internal": internal});
        let mut outcomes: Vec<&'static str> = vec![];
        run_case(ctx, i, cs, describe, || {
            outcomes.push(check_fs_to_repo(&cwd, &base, &input)?);
            if !rel_input.is_empty() {
                outcomes.push(check_relative(&rel_input)?);
            }
            let o = check_repo_to_fs(&internal, &base)?;
            outcomes.push(o);
            if o == "converted" {
                check_ui_roundtrip(&cwd, &base, &internal)?;
            }
            Ok(())
        });
        let special = comps.iter().any(|c| c.is_empty() || c == "." || c == "..") || input.starts_with('/');
        ctx.case(stable_hash(&(&cwd, &base, &input, &internal)), special);
        for (k, o) in outcomes.iter().enumerate() {
            ctx.count(&format!("{}_{o}", ["fs_to_repo", "relative", "repo_to_fs"][k.min(2)]));
        }
        if special && outcomes.first() == Some(&"inside") {
            ctx.sample(describe);
        }
    });
    ctx.finish(1000)
}

// ---------------------------------------------------------------------------
// C33

const NAME_PARTS: &[&str] = &[
    "main", "HEAD", "head", "feature", "a", "git", "origin", "@", "é", "v1.0", "x-y", "release", ".dot",
    "refs", "heads", "tags", "remotes", "a.lock", "..", "a b", "~", "^", ":", "", "-",
];

fn gen_name(rng: &mut Rng) -> String {
    let n = rng.range(1, 3);
    (0..n).map(|_| *rng.pick(NAME_PARTS)).collect::<Vec<_>>().join("/")
}

fn gen_remote(rng: &mut Rng) -> String {
    match rng.below(8) {
        0 => "git".to_owned(),
        1 => "origin".to_owned(),
        2 => "up/stream".to_owned(),
        _ => (*rng.pick(NAME_PARTS)).to_owned(),
    }
}

fn is_valid_git_ref(name: &str) -> bool {
    gix::validate::reference::name(name.into()).is_ok()
}

pub fn run_c33(ctx: &Ctx) -> i32 {
    ctx.set_rule(
        "random bookmark/tag names (slashes, HEAD, @, unicode, leading dots, ref-namespace words) \
         with the local pseudo-remote or a remote name accepted by validate_remote_name, and random \
         ref names under refs/heads, refs/remotes, refs/tags (only names gix/git accept for the \
         import direction). Non-trivial: the mapping is defined (Some) in the tested direction. \
         Distinct: by symbol or ref name.",
    );
    let n = ctx.tier().pick(3_000_000, 10_000_000);
    let seen: std::sync::Mutex<HashMap<String, (bool, String, String)>> = Default::default();
    par_cases(ctx, n, threads(), |i, cs, rng| {
        if rng.bool() {
            // export direction
            let kind_is_tag = rng.chance(1, 3);
            let name = gen_name(rng);
            let remote = gen_remote(rng);
            let remote_ok = remote == "git"
                || git::verif::validate_remote_name(RemoteName::new(&remote)).is_ok();
            let describe = || json!({"direction": "export", "tag": kind_is_tag, "name": name, "remote": remote});
            let mut defined = false;
            run_case(ctx, i, cs, describe, || {
                if !remote_ok {
                    return Ok(());
                }
                let kind = if kind_is_tag { GitRefKind::Tag } else { GitRefKind::Bookmark };
                let symbol = RemoteRefSymbol { name: RefName::new(&name), remote: RemoteName::new(&remote) };
                let Some(r) = git::verif::to_git_ref_name(kind, symbol) else {
                    return Ok(());
                };
                defined = true;
                let parsed = git::parse_git_ref(&r);
                ensure!(
                    parsed.is_some_and(|(k, s)| k == kind && s.name.as_str() == name && s.remote.as_str() == remote),
                    "export_then_parse",
                    "{}@{} ({}) exports to {:?} which parses back to {:?}",
                    name,
                    remote,
                    if kind_is_tag { "tag" } else { "bookmark" },
                    r.as_str(),
                    parsed.map(|(k, s)| (k == GitRefKind::Tag, s.name.as_str().to_owned(), s.remote.as_str().to_owned()))
                );
                let mut seen = seen.lock().unwrap();
                let entry = seen
                    .entry(r.as_str().to_owned())
                    .or_insert_with(|| (kind_is_tag, name.clone(), remote.clone()));
                ensure!(
                    *entry == (kind_is_tag, name.clone(), remote.clone()),
                    "export_injective",
                    "{:?} is the ref of both {:?} and {:?}",
                    r.as_str(),
                    entry,
                    (kind_is_tag, &name, &remote)
                );
                Ok(())
            });
            ctx.case(stable_hash(&("e", kind_is_tag, &name, &remote)), defined);
            ctx.count(if !remote_ok { "export_remote_name_invalid" } else if defined { "export_defined" } else { "export_unmappable" });
            if defined {
                ctx.sample(describe);
            }
        } else {
            let ns = *rng.pick(&["refs/heads/", "refs/remotes/", "refs/tags/", "refs/remotes/origin/", "refs/notes/", "refs/remotes/git/"]);
            let full = format!("{ns}{}", gen_name(rng));
            let valid = is_valid_git_ref(&full);
            let describe = || json!({"direction": "import", "ref": full, "valid_for_git": valid});
            let mut defined = false;
            run_case(ctx, i, cs, describe, || {
                if !valid {
                    return Ok(());
                }
                let Some((kind, symbol)) = git::parse_git_ref(GitRefName::new(&full)) else {
                    return Ok(());
                };
                defined = true;
                let back = git::verif::to_git_ref_name(kind, symbol);
                ensure!(
                    back.as_ref().is_some_and(|b| b.as_str() == full),
                    "parse_then_export",
                    "{:?} parses to {}@{} but that symbol exports to {:?}",
                    full,
                    symbol.name.as_str(),
                    symbol.remote.as_str(),
                    back.as_ref().map(|b| b.as_str().to_owned())
                );
                Ok(())
            });
            ctx.case(stable_hash(&("i", &full)), defined);
            ctx.count(if !valid { "import_ref_invalid_for_git" } else if defined { "import_defined" } else { "import_ignored" });
        }
    });
    ctx.finish(1000)
}
