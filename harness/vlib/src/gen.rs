//! Shared generators for byte contents (G-bytes).

use crate::common::Rng;

const WORDS: &[&str] = &[
    "a", "b", "foo", "bar", "baz", "x1", "y_2", "fn", "let", "αβ", "日本", "0",
];
const SEPS: &[&str] = &[" ", "  ", "\t", ", ", "(", ")", " = ", ".", "-", ""];

/// A pool of distinct lines (without terminator) that cases draw from, so
/// that diffs and merges collide.
pub fn line_pool(rng: &mut Rng, size: usize, with_markers: bool) -> Vec<Vec<u8>> {
    let mut pool: Vec<Vec<u8>> = vec![];
    while pool.len() < size {
        let kind = rng.below(if with_markers { 12 } else { 9 });
        let line: Vec<u8> = match kind {
            0 => vec![],
            1 => format!("line {}", pool.len()).into_bytes(),
            2..=5 => {
                let n = rng.range(1, 5);
                let mut s = String::new();
                for i in 0..n {
                    if i > 0 {
                        s.push_str(*rng.pick(SEPS));
                    }
                    s.push_str(*rng.pick(WORDS));
                }
                s.into_bytes()
            }
            6 => {
                // leading/trailing whitespace variants
                let w = rng.pick(WORDS);
                format!("{}{}{}", rng.pick(&["", " ", "\t", "  "]), w, rng.pick(&["", " ", "  "]))
                    .into_bytes()
            }
            7 => vec![b' '; rng.range(1, 3)],
            8 => {
                // line with a stray CR or odd bytes
                let mut v = rng.pick(WORDS).as_bytes().to_vec();
                match rng.below(4) {
                    0 => v.insert(0, b'\r'),
                    1 => v.extend_from_slice(b"\rz"),
                    2 => v.push(0xff),
                    _ => v.extend_from_slice(&[0xc3]),
                }
                v
            }
            9 => {
                // conflict-marker look-alikes
                let ch = *rng.pick(&[b'<', b'>', b'=', b'+', b'-', b'%', b'\\', b'|']);
                let len = *rng.pick(&[1usize, 3, 6, 7, 7, 7, 8, 11, 12, 20]);
                let mut v = vec![ch; len];
                match rng.below(4) {
                    0 => {}
                    1 => v.extend_from_slice(b" side #1"),
                    2 => v.extend_from_slice(b" "),
                    _ => v.extend_from_slice(b"x"),
                }
                v
            }
            10 => {
                let prefix = *rng.pick(&["+", "-", " ", "\\", "+++++++ ", "------- ", "%%%%%%% "]);
                format!("{}{}", prefix, rng.pick(WORDS)).into_bytes()
            }
            _ => b"<<<<<<< conflict 1 of 1".to_vec(),
        };
        if !pool.contains(&line) {
            pool.push(line);
        } else if pool.len() + 1 >= size && rng.chance(1, 3) {
            pool.push(format!("uniq{}", pool.len()).into_bytes());
        }
    }
    pool
}

#[derive(Clone, Copy, Debug, PartialEq, Eq)]
pub enum Eol {
    Lf,
    Crlf,
    Mixed,
}

/// Joins lines with the given EOL; `final_newline` controls the last line.
pub fn join_lines(rng: &mut Rng, lines: &[Vec<u8>], eol: Eol, final_newline: bool) -> Vec<u8> {
    let mut out = vec![];
    for (i, l) in lines.iter().enumerate() {
        out.extend_from_slice(l);
        if i + 1 < lines.len() || final_newline {
            match eol {
                Eol::Lf => out.push(b'\n'),
                Eol::Crlf => out.extend_from_slice(b"\r\n"),
                Eol::Mixed => {
                    if rng.bool() {
                        out.push(b'\n');
                    } else {
                        out.extend_from_slice(b"\r\n");
                    }
                }
            }
        }
    }
    out
}

/// Random sequence of lines from the pool.
pub fn gen_lines(rng: &mut Rng, pool: &[Vec<u8>], max: usize) -> Vec<Vec<u8>> {
    let n = rng.below(max + 1);
    (0..n).map(|_| rng.pick(pool).clone()).collect()
}

/// Applies 0..=max_edits line edits (insert / delete / replace / duplicate /
/// move) to `base`.
pub fn edit_lines(
    rng: &mut Rng,
    base: &[Vec<u8>],
    pool: &[Vec<u8>],
    max_edits: usize,
) -> Vec<Vec<u8>> {
    let mut lines = base.to_vec();
    for _ in 0..rng.below(max_edits + 1) {
        match rng.below(5) {
            0 => {
                let at = rng.below(lines.len() + 1);
                lines.insert(at, rng.pick(pool).clone());
            }
            1 if !lines.is_empty() => {
                let at = rng.below(lines.len());
                lines.remove(at);
            }
            2 if !lines.is_empty() => {
                let at = rng.below(lines.len());
                lines[at] = rng.pick(pool).clone();
            }
            3 if !lines.is_empty() => {
                let at = rng.below(lines.len());
                let l = lines[at].clone();
                lines.insert(at, l);
            }
            _ if lines.len() >= 2 => {
                let from = rng.below(lines.len());
                let l = lines.remove(from);
                let to = rng.below(lines.len() + 1);
                lines.insert(to, l);
            }
            _ => {}
        }
    }
    lines
}

/// Arbitrary bytes biased to newlines, NUL, CR and a few letters.
pub fn gen_binary(rng: &mut Rng, max_len: usize) -> Vec<u8> {
    let n = rng.below(max_len + 1);
    (0..n)
        .map(|_| match rng.below(10) {
            0 => 0u8,
            1 => b'\n',
            2 => b'\r',
            3 => b' ',
            4 => 0xff,
            5 => (rng.next_u64() & 0xff) as u8,
            _ => b'a' + rng.below(4) as u8,
        })
        .collect()
}

/// One file content: mostly line-structured text, sometimes binary/empty.
pub fn gen_content(rng: &mut Rng, pool: &[Vec<u8>], max_lines: usize) -> Vec<u8> {
    match rng.below(12) {
        0 => vec![],
        1 => gen_binary(rng, 40),
        _ => {
            let lines = gen_lines(rng, pool, max_lines);
            let eol = *rng.pick(&[Eol::Lf, Eol::Lf, Eol::Lf, Eol::Crlf, Eol::Mixed]);
            let final_newline = !rng.chance(1, 5);
            join_lines(rng, &lines, eol, final_newline)
        }
    }
}

pub fn lossy(bytes: &[u8]) -> String {
    String::from_utf8_lossy(bytes).into_owned()
}

pub fn show(bytes: &[u8]) -> String {
    format!("{:?}", bstr::BStr::new(bytes))
}
