//! C19 (revset evaluation matches set semantics) and C39 (log graph edges
//! preserve ancestry).
//!
//! Both engines build a fresh repository per case: a random DAG written over
//! several transactions, some commits abandoned / rewritten (so that they stay
//! in the index but are hidden), bookmarks and tags. The harness keeps its own
//! `Dag` record of every commit and computes every expected value from it.

use std::cell::Cell;
use std::cell::RefCell;
use std::collections::BTreeMap;
use std::collections::BTreeSet;
use std::collections::HashMap;
use std::convert::Infallible;
use std::sync::Arc;

use futures::TryStreamExt as _;
use jj_lib::backend::CommitId;
use jj_lib::backend::MillisSinceEpoch;
use jj_lib::backend::Signature;
use jj_lib::backend::Timestamp;
use jj_lib::default_index::DefaultReadonlyIndex;
use jj_lib::fileset::FilesetAliasesMap;
use jj_lib::graph::GraphEdge;
use jj_lib::graph::GraphEdgeType;
use jj_lib::graph::TopoGroupedGraph;
use jj_lib::graph::reverse_graph;
use jj_lib::merge::Merge;
use jj_lib::object_id::HexPrefix;
use jj_lib::object_id::ObjectId as _;
use jj_lib::op_store::RefTarget;
use jj_lib::ref_name::RefName;
use jj_lib::repo::MutableRepo;
use jj_lib::repo::ReadonlyRepo;
use jj_lib::repo::Repo;
use jj_lib::revset;
use jj_lib::revset::ResolvedRevsetExpression;
use jj_lib::revset::Revset;
use jj_lib::revset::RevsetAliasesMap;
use jj_lib::revset::RevsetDiagnostics;
use jj_lib::revset::RevsetExpression;
use jj_lib::revset::RevsetExtensions;
use jj_lib::revset::RevsetFilterPredicate;
use jj_lib::revset::RevsetParseContext;
use jj_lib::revset::SymbolResolver;
use jj_lib::revset::SymbolResolverExtension;
use jj_lib::revset::UserRevsetExpression;
use jj_lib::str_util::StringExpression;
use jj_lib::str_util::StringPattern;
use pollster::FutureExt as _;
use serde_json::Value;
use serde_json::json;
use testutils::TestRepo;

use crate::common::*;
use crate::dag::Dag;
use crate::ensure;

type Set = BTreeSet<usize>;

// ---------------------------------------------------------------------------
// Fixture: repository + DAG model

struct OpRecord {
    id_hex: String,
    /// Visible heads at that operation (DAG indices).
    heads: Set,
    /// Number of DAG commits that existed at that operation.
    dag_len: usize,
}

struct Fixture {
    _env: TestRepo,
    repo: Arc<ReadonlyRepo>,
    dag: Dag,
    /// Ancestors (including self) of every commit, by plain graph search.
    anc: Vec<Set>,
    visible_heads: Set,
    visible: Set,
    hidden: Vec<usize>,
    bookmarks: BTreeMap<String, Vec<usize>>,
    tags: BTreeMap<String, Vec<usize>>,
    /// Committer timestamp (ms) of every commit, read back from the store.
    ts: Vec<i64>,
    ops: Vec<OpRecord>,
    /// One global newest-first order: the evaluation of "all known commits".
    order_pos: Vec<usize>,
    n_rewritten: usize,
    n_abandoned: usize,
}

fn sig(ms: i64) -> Signature {
    Signature {
        name: "V".to_owned(),
        email: "v@example.com".to_owned(),
        timestamp: Timestamp { timestamp: MillisSinceEpoch(ms), tz_offset: 0 },
    }
}

struct TsPool(Vec<i64>);
impl TsPool {
    fn new(rng: &mut Rng) -> Self {
        let mut v: Vec<i64> = (0..400).map(|k| 1_000_000_000_000 + k * 1000).collect();
        rng.shuffle(&mut v);
        Self(v)
    }
    fn next(&mut self) -> i64 {
        self.0.pop().expect("timestamp pool exhausted")
    }
}

fn write_commit(mut_repo: &mut MutableRepo, dag: &mut Dag, parents: &[usize], ts: i64) -> usize {
    let tree = dag.commit(parents[0]).tree();
    let parent_ids = parents.iter().map(|p| dag.id(*p).clone()).collect();
    let commit = mut_repo
        .new_commit(parent_ids, tree)
        .set_description(format!("c{}", dag.len()))
        .set_committer(sig(ts))
        .write()
        .block_on()
        .unwrap();
    dag.add(commit, None)
}

fn grow(
    rng: &mut Rng,
    mut_repo: &mut MutableRepo,
    dag: &mut Dag,
    n: usize,
    pool: &mut TsPool,
    preferred: &[usize],
) {
    let mut candidates: Vec<usize> = preferred.to_vec();
    for _ in 0..n {
        let n_parents = if candidates.len() >= 3 && rng.chance(30, 100) { rng.range(2, 3) } else { 1 };
        let mut parents: Vec<usize> = vec![];
        let mut tries = 0;
        while parents.len() < n_parents && tries < 20 {
            tries += 1;
            let p = if rng.chance(2, 3) {
                candidates[candidates.len() - 1 - rng.below(candidates.len().min(4))]
            } else {
                *rng.pick(&candidates)
            };
            if !parents.contains(&p) {
                parents.push(p);
            }
        }
        if parents.len() > 1 {
            parents.retain(|p| *p != 0);
        }
        if parents.is_empty() {
            parents.push(0);
        }
        let i = write_commit(mut_repo, dag, &parents, pool.next());
        candidates.push(i);
    }
}

/// Records commits reachable from the view heads that the harness did not
/// write itself (results of `rebase_descendants`), by walking the store.
fn sync_dag(repo: &dyn Repo, dag: &mut Dag) {
    let store = repo.store().clone();
    let mut heads: Vec<CommitId> = repo.view().heads().iter().cloned().collect();
    heads.sort();
    for head in heads {
        let mut stack = vec![(head, false)];
        while let Some((id, expanded)) = stack.pop() {
            if dag.idx(&id).is_some() {
                continue;
            }
            let commit = store.get_commit(&id).unwrap();
            if expanded {
                dag.add(commit, None);
            } else {
                stack.push((id.clone(), true));
                for p in commit.parent_ids() {
                    if dag.idx(p).is_none() {
                        stack.push((p.clone(), false));
                    }
                }
            }
        }
    }
}

fn view_heads(repo: &dyn Repo, dag: &Dag) -> Set {
    repo.view().heads().iter().map(|id| dag.idx(id).expect("view head must be recorded")).collect()
}

fn record_op(repo: &Arc<ReadonlyRepo>, dag: &Dag, ops: &mut Vec<OpRecord>) {
    ops.push(OpRecord { id_hex: repo.op_id().hex(), heads: view_heads(repo.as_ref(), dag), dag_len: dag.len() });
}

struct FixtureOptions {
    max_first: usize,
    max_later: usize,
    hide_percent: usize,
}

fn build_fixture(rng: &mut Rng, opts: &FixtureOptions) -> Fixture {
    let env = TestRepo::init();
    let mut repo = env.repo.clone();
    let mut dag = Dag::new(repo.store());
    let mut pool = TsPool::new(rng);
    let mut ops = vec![];
    record_op(&repo, &dag, &mut ops);
    let mut n_rewritten = 0;
    let mut n_abandoned = 0;

    let mut tx = repo.start_transaction();
    let n1 = rng.range(3, opts.max_first);
    grow(rng, tx.repo_mut(), &mut dag, n1, &mut pool, &[0]);
    repo = tx.commit("grow").block_on().unwrap();
    record_op(&repo, &dag, &mut ops);

    let rounds = rng.range(1, 2);
    for _ in 0..rounds {
        if rng.chance(opts.hide_percent, 100) {
            let visible: Vec<usize> = dag
                .ancestors_of_set(view_heads(repo.as_ref(), &dag))
                .into_iter()
                .filter(|i| *i != 0)
                .collect();
            if !visible.is_empty() {
                let mut tx = repo.start_transaction();
                let mut chosen: Vec<usize> = visible.clone();
                rng.shuffle(&mut chosen);
                let k_abandon = rng.range(0, 3).min(chosen.len());
                let abandon: Vec<usize> = chosen.drain(..k_abandon).collect();
                let k_rewrite = if abandon.is_empty() { rng.range(1, 2) } else { rng.range(0, 2) }.min(chosen.len());
                let rewrite: Vec<usize> = chosen.drain(..k_rewrite).collect();
                // Heads are abandoned more often so that whole hidden branches exist.
                for a in &abandon {
                    tx.repo_mut().record_abandoned_commit(dag.commit(*a));
                    n_abandoned += 1;
                }
                for r in &rewrite {
                    let old = dag.commit(*r).clone();
                    let new = tx
                        .repo_mut()
                        .rewrite_commit(&old)
                        .set_description(format!("rw{r}"))
                        .set_committer(sig(pool.next()))
                        .write()
                        .block_on()
                        .unwrap();
                    dag.add(new, None);
                    n_rewritten += 1;
                }
                tx.repo_mut().rebase_descendants().block_on().unwrap();
                repo = tx.commit("rewrite").block_on().unwrap();
                sync_dag(repo.as_ref(), &mut dag);
                record_op(&repo, &dag, &mut ops);
            }
        }
        if rng.chance(70, 100) {
            let visible: Vec<usize> =
                dag.ancestors_of_set(view_heads(repo.as_ref(), &dag)).into_iter().collect();
            let mut preferred = visible.clone();
            // Rarely build on top of a hidden commit (makes it visible again).
            if rng.chance(1, 12) {
                let hidden: Vec<usize> = (0..dag.len()).filter(|i| !visible.contains(i)).collect();
                if !hidden.is_empty() {
                    preferred.push(*rng.pick(&hidden));
                }
            }
            let mut tx = repo.start_transaction();
            let n = rng.range(1, opts.max_later);
            grow(rng, tx.repo_mut(), &mut dag, n, &mut pool, &preferred);
            repo = tx.commit("grow more").block_on().unwrap();
            record_op(&repo, &dag, &mut ops);
        }
    }

    // Bookmarks and tags on visible commits (one bookmark may be conflicted).
    let visible_heads = view_heads(repo.as_ref(), &dag);
    let visible = dag.ancestors_of_set(visible_heads.iter().copied());
    let vis: Vec<usize> = visible.iter().copied().collect();
    let mut bookmarks = BTreeMap::new();
    let mut tags = BTreeMap::new();
    {
        let mut tx = repo.start_transaction();
        for name in ["b0", "b1", "main", "feat"] {
            if rng.chance(3, 5) {
                let a = *rng.pick(&vis);
                if vis.len() >= 3 && rng.chance(1, 6) {
                    let b = *rng.pick(&vis);
                    let base = *rng.pick(&vis);
                    if a != b && a != base && b != base {
                        let target = RefTarget::from_merge(Merge::from_vec(vec![
                            Some(dag.id(a).clone()),
                            Some(dag.id(base).clone()),
                            Some(dag.id(b).clone()),
                        ]));
                        tx.repo_mut().set_local_bookmark_target(RefName::new(name), target);
                        bookmarks.insert(name.to_owned(), vec![a, b]);
                        continue;
                    }
                }
                tx.repo_mut().set_local_bookmark_target(RefName::new(name), RefTarget::normal(dag.id(a).clone()));
                bookmarks.insert(name.to_owned(), vec![a]);
            }
        }
        for name in ["t0", "t1", "v1"] {
            if rng.chance(1, 2) {
                let a = *rng.pick(&vis);
                tx.repo_mut().set_local_tag_target(RefName::new(name), RefTarget::normal(dag.id(a).clone()));
                tags.insert(name.to_owned(), vec![a]);
            }
        }
        if tx.repo().has_changes() {
            repo = tx.commit("refs").block_on().unwrap();
            record_op(&repo, &dag, &mut ops);
        }
    }

    let visible_heads = view_heads(repo.as_ref(), &dag);
    let visible = dag.ancestors_of_set(visible_heads.iter().copied());
    let hidden: Vec<usize> = (0..dag.len()).filter(|i| !visible.contains(i)).collect();
    let anc: Vec<Set> = (0..dag.len()).map(|i| dag.ancestors(i)).collect();
    let ts: Vec<i64> = (0..dag.len()).map(|i| dag.commit(i).committer().timestamp.timestamp.0).collect();
    let visible_heads = dag.heads_of(&visible_heads);
    Fixture {
        _env: env,
        repo,
        dag,
        anc,
        visible_heads,
        visible,
        hidden,
        bookmarks,
        tags,
        ts,
        ops,
        order_pos: vec![],
        n_rewritten,
        n_abandoned,
    }
}

impl Fixture {
    fn n(&self) -> usize {
        self.dag.len()
    }

    fn ancestors_of(&self, set: &Set) -> Set {
        let mut out = Set::new();
        for i in set {
            out.extend(self.anc[*i].iter().copied());
        }
        out
    }

    fn to_json(&self) -> Value {
        json!({
            "parents": (0..self.n()).map(|i| self.dag.nodes[i].parents.clone()).collect::<Vec<_>>(),
            "visible_heads": self.visible_heads,
            "hidden": self.hidden,
            "bookmarks": self.bookmarks,
            "tags": self.tags,
            "committer_ts": self.ts,
            "ops": self.ops.iter().map(|o| json!({"heads": o.heads, "dag_len": o.dag_len})).collect::<Vec<_>>(),
        })
    }

    fn shape_hash(&self) -> u64 {
        let parents: Vec<&Vec<usize>> = (0..self.n()).map(|i| &self.dag.nodes[i].parents).collect();
        stable_hash(&(parents, &self.hidden, &self.bookmarks, &self.tags))
    }

    fn idx_of(&self, ids: &[CommitId], clause: &str) -> Result<Vec<usize>, Fail> {
        let mut out = vec![];
        for id in ids {
            match self.dag.idx(id) {
                Some(i) => out.push(i),
                None => {
                    return Err(Fail {
                        clause: clause.to_owned(),
                        message: format!("result contains commit {} that the harness never created or saw", id.hex()),
                    });
                }
            }
        }
        Ok(out)
    }

    /// Establishes the global newest-first order from one evaluation of "all
    /// known commits" and checks that evaluation itself.
    fn init_order(&mut self) -> Check {
        let all_ids: Vec<CommitId> = (0..self.n()).map(|i| self.dag.id(i).clone()).collect();
        let expr: Arc<ResolvedRevsetExpression> = RevsetExpression::commits(all_ids);
        let revset = match expr.evaluate_unoptimized(self.repo.as_ref()) {
            Ok(r) => r,
            Err(e) => return fail("evaluate.error", format!("commits(<all known ids>) failed: {e}")),
        };
        let ids = collect_ids(revset.as_ref()).map_err(|m| Fail { clause: "evaluate.error".into(), message: m })?;
        let order = self.idx_of(&ids, "result.only_known_commits")?;
        let set: Set = order.iter().copied().collect();
        ensure!(
            set.len() == order.len() && set.len() == self.n(),
            "set.equals_definition",
            "commits(<all {} known ids>) evaluated to {} entries, {} distinct",
            self.n(),
            order.len(),
            set.len()
        );
        let mut pos = vec![0; self.n()];
        for (k, i) in order.iter().enumerate() {
            pos[*i] = k;
        }
        self.order_pos = pos;
        self.check_order(&order, "commits(<all>)")
    }

    /// No duplicates, restriction of the global order, children before parents.
    fn check_order(&self, result: &[usize], what: &str) -> Check {
        let set: Set = result.iter().copied().collect();
        ensure!(set.len() == result.len(), "order.no_duplicates", "{}: result lists a commit twice: {:?}", what, result);
        for w in result.windows(2) {
            ensure!(
                self.order_pos[w[0]] < self.order_pos[w[1]],
                "order.restriction_of_global_order",
                "{}: c{} is listed before c{} but the global newest-first order has them the other way; result {:?}",
                what,
                w[0],
                w[1],
                result
            );
        }
        for (k, a) in result.iter().enumerate() {
            for b in &result[k + 1..] {
                ensure!(
                    !(a != b && self.anc[*b].contains(a)),
                    "order.children_before_parents",
                    "{}: c{} is listed before its descendant c{}; result {:?}",
                    what,
                    a,
                    b,
                    result
                );
            }
        }
        Ok(())
    }
}

fn collect_ids(revset: &dyn Revset) -> Result<Vec<CommitId>, String> {
    revset.stream().try_collect::<Vec<_>>().block_on().map_err(|e| format!("stream failed: {e}"))
}

// ---------------------------------------------------------------------------
// Expression model

#[derive(Clone, Copy, Debug, Hash, PartialEq, Eq)]
enum SymKind {
    Bookmark,
    Tag,
    ChangeId,
    CommitIdFn,
    ChangeIdFn,
    /// A name that resolves to nothing (only generated below `present()`).
    Missing,
}

#[derive(Clone, Debug, Hash)]
enum Pat {
    All,
    Exact(String),
    /// `prefix*`
    Glob(String),
    Substring(String),
}

impl Pat {
    fn matches(&self, name: &str) -> bool {
        match self {
            Self::All => true,
            Self::Exact(s) => name == s,
            Self::Glob(p) => name.starts_with(p.as_str()),
            Self::Substring(s) => name.contains(s.as_str()),
        }
    }
}

#[derive(Clone, Copy, Debug, Hash, PartialEq, Eq)]
enum Dir {
    Anc,
    Desc,
}

#[derive(Clone, Debug, Hash)]
enum E {
    None,
    All,
    VisibleHeads,
    Root,
    Merges,
    Forks,
    /// Bare `::`
    DagAll,
    /// Bare `..`
    RangeAll,
    Commits(Vec<usize>),
    Sym { kind: SymKind, text: String, target: Option<usize> },
    Bookmarks(Pat),
    Tags(Pat),
    /// Commits reached from `x` by a path of `k` parent (or child) edges with
    /// `lo <= k < hi` (`hi = None`: unbounded); `first`: first parents only.
    Walk { x: Box<E>, dir: Dir, first: bool, lo: u64, hi: Option<u64>, style: u8 },
    Range(Box<E>, Box<E>),
    RangePre(Box<E>),
    RangePost(Box<E>),
    DagRange(Box<E>, Box<E>),
    Heads(Box<E>),
    Roots(Box<E>),
    ForkPoint(Box<E>),
    MergePoint(Box<E>),
    Reachable(Box<E>, Box<E>),
    Connected(Box<E>),
    Latest(Box<E>, usize, bool),
    Coalesce(Vec<E>),
    Present(Box<E>),
    AtOp(usize, Box<E>),
    Not(Box<E>),
    Union(Vec<E>),
    Inter(Box<E>, Box<E>),
    Diff(Box<E>, Box<E>),
}

impl E {
    fn kind(&self) -> &'static str {
        match self {
            Self::None => "none",
            Self::All => "all",
            Self::VisibleHeads => "visible_heads",
            Self::Root => "root",
            Self::Merges => "merges",
            Self::Forks => "forks",
            Self::DagAll => "dag_range_all",
            Self::RangeAll => "range_all",
            Self::Commits(_) => "commits",
            Self::Sym { kind, .. } => match kind {
                SymKind::Bookmark => "symbol_bookmark",
                SymKind::Tag => "symbol_tag",
                SymKind::ChangeId => "symbol_change_id",
                SymKind::CommitIdFn => "commit_id_fn",
                SymKind::ChangeIdFn => "change_id_fn",
                SymKind::Missing => "symbol_missing",
            },
            Self::Bookmarks(_) => "bookmarks",
            Self::Tags(_) => "tags",
            Self::Walk { dir, first, lo, hi, .. } => match (dir, first, lo, hi) {
                (Dir::Anc, false, 1, Some(2)) => "parents",
                (Dir::Anc, false, 0, None) => "ancestors",
                (Dir::Anc, false, _, _) => "ancestors_generation_range",
                (Dir::Anc, true, 0, None) => "first_ancestors",
                (Dir::Anc, true, _, _) => "first_ancestors_generation_range",
                (Dir::Desc, _, 1, Some(2)) => "children",
                (Dir::Desc, _, 0, None) => "descendants",
                (Dir::Desc, _, _, _) => "descendants_generation_range",
            },
            Self::Range(..) => "range",
            Self::RangePre(_) => "range_pre",
            Self::RangePost(_) => "range_post",
            Self::DagRange(..) => "dag_range",
            Self::Heads(_) => "heads",
            Self::Roots(_) => "roots",
            Self::ForkPoint(_) => "fork_point",
            Self::MergePoint(_) => "merge_point",
            Self::Reachable(..) => "reachable",
            Self::Connected(_) => "connected",
            Self::Latest(..) => "latest",
            Self::Coalesce(_) => "coalesce",
            Self::Present(_) => "present",
            Self::AtOp(..) => "at_operation",
            Self::Not(_) => "negation",
            Self::Union(_) => "union",
            Self::Inter(..) => "intersection",
            Self::Diff(..) => "difference",
        }
    }

    fn children(&self) -> Vec<&E> {
        match self {
            Self::Walk { x, .. }
            | Self::RangePre(x)
            | Self::RangePost(x)
            | Self::Heads(x)
            | Self::Roots(x)
            | Self::ForkPoint(x)
            | Self::MergePoint(x)
            | Self::Connected(x)
            | Self::Latest(x, _, _)
            | Self::Present(x)
            | Self::AtOp(_, x)
            | Self::Not(x) => vec![x],
            Self::Range(a, b) | Self::DagRange(a, b) | Self::Reachable(a, b) | Self::Inter(a, b) | Self::Diff(a, b) => {
                vec![a, b]
            }
            Self::Coalesce(xs) | Self::Union(xs) => xs.iter().collect(),
            _ => vec![],
        }
    }

    fn visit<'a>(&'a self, f: &mut impl FnMut(&'a E)) {
        f(self);
        for c in self.children() {
            c.visit(f);
        }
    }

    fn is_leaf(&self) -> bool {
        self.children().is_empty()
    }

    fn has_missing_symbol(&self) -> bool {
        match self {
            Self::Sym { kind: SymKind::Missing, .. } => true,
            // An inner present() has already swallowed the failure.
            Self::Present(_) => false,
            _ => self.children().iter().any(|c| c.has_missing_symbol()),
        }
    }
}

// ---------------------------------------------------------------------------
// Reference evaluator (plain sets over the DAG model)

struct Scope {
    /// `all()` of this scope: ancestors of the visible heads and of every
    /// commit mentioned in the scope.
    universe: Set,
    visible_heads: Set,
}

struct Model<'a> {
    fx: &'a Fixture,
    /// Set when `latest()` had to break a committer-timestamp tie (the
    /// documentation does not define which commit wins).
    ambiguous: Cell<bool>,
}

impl<'a> Model<'a> {
    fn new(fx: &'a Fixture) -> Self {
        Self { fx, ambiguous: Cell::new(false) }
    }

    fn refs_by_name(&self, map: &BTreeMap<String, Vec<usize>>, pat: &Pat) -> Set {
        map.iter().filter(|(name, _)| pat.matches(name)).flat_map(|(_, t)| t.iter().copied()).collect()
    }

    /// Commits explicitly mentioned in `e` (after name resolution), as seen
    /// from the enclosing scope.
    fn mentioned(&self, e: &E, out: &mut Set) {
        match e {
            E::Commits(v) => out.extend(v.iter().copied()),
            E::Sym { target, .. } => out.extend(target.iter().copied()),
            E::Bookmarks(p) => out.extend(self.refs_by_name(&self.fx.bookmarks, p)),
            E::Tags(p) => out.extend(self.refs_by_name(&self.fx.tags, p)),
            // present(x) with an unresolvable name is none(): nothing is mentioned.
            E::Present(x) if x.has_missing_symbol() => {}
            // The scope's own heads and mentions are carried to the outside.
            E::AtOp(op, x) => {
                out.extend(self.fx.ops[*op].heads.iter().copied());
                self.mentioned(x, out);
            }
            _ => {
                for c in e.children() {
                    self.mentioned(c, out);
                }
            }
        }
    }

    fn scope_for(&self, e: &E, visible_heads: &Set) -> Scope {
        let mut m = Set::new();
        self.mentioned(e, &mut m);
        m.extend(visible_heads.iter().copied());
        let heads_model = self.fx.dag.heads_of(visible_heads);
        Scope { universe: self.fx.ancestors_of(&m), visible_heads: heads_model }
    }

    fn eval_top(&self, e: &E) -> Set {
        let scope = self.scope_for(e, &self.fx.visible_heads);
        self.eval(e, &scope)
    }

    fn parents_of(&self, set: &Set, first: bool) -> Set {
        let mut out = Set::new();
        for c in set {
            let ps = &self.fx.dag.nodes[*c].parents;
            if first {
                out.extend(ps.first().copied());
            } else {
                out.extend(ps.iter().copied());
            }
        }
        out
    }

    fn children_of(&self, set: &Set, scope: &Scope) -> Set {
        scope
            .universe
            .iter()
            .copied()
            .filter(|c| self.fx.dag.nodes[*c].parents.iter().any(|p| set.contains(p)))
            .collect()
    }

    fn walk(&self, start: &Set, dir: Dir, first: bool, lo: u64, hi: Option<u64>, scope: &Scope) -> Set {
        let mut out = Set::new();
        let mut level = start.clone();
        let mut k: u64 = 0;
        // A path has fewer edges than there are commits.
        let cap = self.fx.n() as u64 + 1;
        while !level.is_empty() && k <= cap && hi.is_none_or(|h| k < h) {
            if k >= lo {
                out.extend(level.iter().copied());
            }
            level = match dir {
                Dir::Anc => self.parents_of(&level, first),
                Dir::Desc => self.children_of(&level, scope),
            };
            k += 1;
        }
        out
    }

    fn descendants_in(&self, set: &Set, within: &Set) -> Set {
        // indices are topologically ordered (parents first)
        let mut out: Set = set.intersection(within).copied().collect();
        for c in within {
            if self.fx.dag.nodes[*c].parents.iter().any(|p| out.contains(p)) {
                out.insert(*c);
            }
        }
        out
    }

    fn eval(&self, e: &E, scope: &Scope) -> Set {
        let fx = self.fx;
        let u = &scope.universe;
        match e {
            E::None => Set::new(),
            E::All | E::DagAll => u.clone(),
            E::RangeAll => u.iter().copied().filter(|c| *c != 0).collect(),
            E::VisibleHeads => scope.visible_heads.clone(),
            E::Root => [0].into_iter().collect(),
            E::Merges => u.iter().copied().filter(|c| fx.dag.nodes[*c].parents.len() >= 2).collect(),
            E::Forks => u
                .iter()
                .copied()
                .filter(|c| u.iter().filter(|d| fx.dag.nodes[**d].parents.contains(c)).count() >= 2)
                .collect(),
            E::Commits(v) => v.iter().copied().collect(),
            E::Sym { target, .. } => target.iter().copied().collect(),
            E::Bookmarks(p) => self.refs_by_name(&fx.bookmarks, p),
            E::Tags(p) => self.refs_by_name(&fx.tags, p),
            E::Walk { x, dir, first, lo, hi, .. } => {
                let s = self.eval(x, scope);
                self.walk(&s, *dir, *first, *lo, *hi, scope)
            }
            E::Range(a, b) => {
                let a = fx.ancestors_of(&self.eval(a, scope));
                let b = fx.ancestors_of(&self.eval(b, scope));
                b.difference(&a).copied().collect()
            }
            E::RangePre(x) => {
                let mut s = fx.ancestors_of(&self.eval(x, scope));
                s.remove(&0);
                s
            }
            E::RangePost(x) => {
                let a = fx.ancestors_of(&self.eval(x, scope));
                u.difference(&a).copied().collect()
            }
            E::DagRange(a, b) => {
                let roots = self.eval(a, scope);
                let heads = fx.ancestors_of(&self.eval(b, scope));
                self.descendants_in(&roots, &heads)
            }
            E::Connected(x) => {
                let s = self.eval(x, scope);
                self.descendants_in(&s, &fx.ancestors_of(&s))
            }
            E::Heads(x) => fx.dag.heads_of(&self.eval(x, scope)),
            E::Roots(x) => fx.dag.roots_of(&self.eval(x, scope)),
            E::ForkPoint(x) => {
                let s = self.eval(x, scope);
                let mut it = s.iter();
                let Some(first) = it.next() else { return Set::new() };
                let mut common = fx.anc[*first].clone();
                for c in it {
                    common = common.intersection(&fx.anc[*c]).copied().collect();
                }
                fx.dag.heads_of(&common)
            }
            E::MergePoint(x) => {
                let s = self.eval(x, scope);
                let mut it = s.iter();
                let Some(first) = it.next() else { return Set::new() };
                let one = |c: usize| self.descendants_in(&[c].into_iter().collect(), u);
                let mut common = one(*first);
                for c in it {
                    common = common.intersection(&one(*c)).copied().collect();
                }
                fx.dag.roots_of(&common)
            }
            E::Reachable(srcs, domain) => {
                let domain = self.eval(domain, scope);
                let srcs = self.eval(srcs, scope);
                let mut seen: Set = srcs.intersection(&domain).copied().collect();
                let mut stack: Vec<usize> = seen.iter().copied().collect();
                while let Some(c) = stack.pop() {
                    let mut next: Vec<usize> = fx.dag.nodes[c].parents.clone();
                    next.extend(domain.iter().copied().filter(|d| fx.dag.nodes[*d].parents.contains(&c)));
                    for n in next {
                        if domain.contains(&n) && seen.insert(n) {
                            stack.push(n);
                        }
                    }
                }
                seen
            }
            E::Latest(x, count, _) => {
                let s = self.eval(x, scope);
                let mut v: Vec<usize> = s.into_iter().collect();
                v.sort_by_key(|c| std::cmp::Reverse(fx.ts[*c]));
                if *count > 0 && v.len() > *count && fx.ts[v[*count - 1]] == fx.ts[v[*count]] {
                    self.ambiguous.set(true);
                }
                v.truncate(*count);
                v.into_iter().collect()
            }
            E::Coalesce(xs) => {
                for x in xs {
                    let s = self.eval(x, scope);
                    if !s.is_empty() {
                        return s;
                    }
                }
                Set::new()
            }
            E::Present(x) => {
                if x.has_missing_symbol() {
                    Set::new()
                } else {
                    self.eval(x, scope)
                }
            }
            E::AtOp(op, x) => {
                let inner = self.scope_for(x, &fx.ops[*op].heads);
                self.eval(x, &inner)
            }
            E::Not(x) => {
                let s = self.eval(x, scope);
                u.difference(&s).copied().collect()
            }
            E::Union(xs) => {
                let mut out = Set::new();
                for x in xs {
                    out.extend(self.eval(x, scope));
                }
                out
            }
            E::Inter(a, b) => {
                let a = self.eval(a, scope);
                let b = self.eval(b, scope);
                a.intersection(&b).copied().collect()
            }
            E::Diff(a, b) => {
                let a = self.eval(a, scope);
                let b = self.eval(b, scope);
                a.difference(&b).copied().collect()
            }
        }
    }
}

// ---------------------------------------------------------------------------
// Generator

struct GenCtx<'a> {
    fx: &'a Fixture,
    /// Inside `at_operation(op, ..)`: only commits that existed at `op`.
    at_op: Option<usize>,
}

impl GenCtx<'_> {
    fn commit_limit(&self) -> usize {
        self.at_op.map_or(self.fx.n(), |op| self.fx.ops[op].dag_len)
    }

    fn pick_commit(&self, rng: &mut Rng) -> usize {
        let limit = self.commit_limit();
        let hidden: Vec<usize> = self.fx.hidden.iter().copied().filter(|h| *h < limit).collect();
        if !hidden.is_empty() && rng.chance(3, 10) {
            return *rng.pick(&hidden);
        }
        if limit > 1 && rng.chance(9, 10) { rng.range(1, limit - 1) } else { rng.below(limit) }
    }

    fn leaf(&self, rng: &mut Rng) -> E {
        let fx = self.fx;
        if self.at_op.is_some() {
            return match rng.below(10) {
                0 => E::All,
                1 => E::VisibleHeads,
                2 => E::Root,
                3 => E::Merges,
                _ => E::Commits(vec![self.pick_commit(rng)]),
            };
        }
        match rng.weighted(&[44, 14, 8, 6, 3, 6, 4, 5, 3, 3, 4]) {
            0 => {
                let k = if rng.chance(7, 10) { 1 } else { rng.range(2, 3) };
                let mut v = vec![];
                for _ in 0..k {
                    let c = self.pick_commit(rng);
                    if !v.contains(&c) {
                        v.push(c);
                    }
                }
                E::Commits(v)
            }
            1 => {
                let mut options: Vec<E> = vec![];
                for (name, t) in &fx.bookmarks {
                    if t.len() == 1 {
                        options.push(E::Sym { kind: SymKind::Bookmark, text: name.clone(), target: Some(t[0]) });
                    }
                }
                for (name, t) in &fx.tags {
                    options.push(E::Sym { kind: SymKind::Tag, text: name.clone(), target: Some(t[0]) });
                }
                // Change ids: only visible commits whose change id no other visible commit shares.
                for _ in 0..3 {
                    let c = *rng.pick(&fx.visible.iter().copied().collect::<Vec<_>>());
                    let change = fx.dag.change_id(c);
                    let unique = fx.visible.iter().filter(|o| fx.dag.change_id(**o) == change).count() == 1;
                    if unique && c != 0 {
                        let kind = if rng.bool() { SymKind::ChangeId } else { SymKind::ChangeIdFn };
                        options.push(E::Sym { kind, text: change.reverse_hex(), target: Some(c) });
                    }
                }
                let c = self.pick_commit(rng);
                options.push(E::Sym { kind: SymKind::CommitIdFn, text: fx.dag.id(c).hex(), target: Some(c) });
                rng.pick(&options).clone()
            }
            2 => {
                let pat = match rng.below(6) {
                    0 | 1 => Pat::All,
                    2 => Pat::Exact((*rng.pick(&["b0", "b1", "main", "feat", "t0", "v1", "zz"])).to_owned()),
                    3 | 4 => Pat::Glob((*rng.pick(&["b", "t", "ma", "v", "q"])).to_owned()),
                    _ => Pat::Substring((*rng.pick(&["a", "0", "1", "e"])).to_owned()),
                };
                if rng.bool() { E::Bookmarks(pat) } else { E::Tags(pat) }
            }
            3 => E::All,
            4 => E::None,
            5 => E::VisibleHeads,
            6 => E::Root,
            7 => E::Merges,
            8 => E::Forks,
            9 => E::DagAll,
            _ => E::RangeAll,
        }
    }

    fn walk_range(&self, rng: &mut Rng) -> (u64, Option<u64>) {
        match rng.weighted(&[35, 30, 15, 12, 6, 2]) {
            0 => (1, Some(2)),
            1 => (0, None),
            2 => (0, Some(*rng.pick(&[0u64, 1, 2, 3, 4, 5, 1000, 1 << 33, u64::MAX]))),
            3 => {
                let n = rng.below(5) as u64;
                (n, Some(n + 1))
            }
            4 => {
                let a = rng.below(4) as u64;
                (a, Some(a + rng.below(5) as u64))
            }
            _ => (rng.range(1, 3) as u64, None),
        }
    }

    fn expr(&self, rng: &mut Rng, depth: usize) -> E {
        if depth == 0 || rng.chance(1, 5) {
            return self.leaf(rng);
        }
        let sub = |rng: &mut Rng| Box::new(self.expr(rng, depth - 1));
        let can_at_op = self.at_op.is_none() && self.fx.ops.len() > 1;
        match rng.weighted(&[22, 6, 2, 3, 5, 5, 5, 4, 3, 4, 3, 4, 3, 3, if can_at_op { 3 } else { 0 }, 6, 8, 7, 6]) {
            0 => {
                let dir = if rng.chance(55, 100) { Dir::Anc } else { Dir::Desc };
                let first = dir == Dir::Anc && rng.chance(3, 10);
                let (lo, hi) = self.walk_range(rng);
                E::Walk { x: sub(rng), dir, first, lo, hi, style: rng.below(4) as u8 }
            }
            1 => E::Range(sub(rng), sub(rng)),
            2 => E::RangePre(sub(rng)),
            3 => E::RangePost(sub(rng)),
            4 => E::DagRange(sub(rng), sub(rng)),
            5 => E::Heads(sub(rng)),
            6 => E::Roots(sub(rng)),
            7 => E::ForkPoint(sub(rng)),
            8 => E::MergePoint(sub(rng)),
            9 => E::Reachable(sub(rng), sub(rng)),
            10 => E::Connected(sub(rng)),
            11 => E::Latest(sub(rng), rng.below(4), rng.bool()),
            12 => E::Coalesce((0..rng.range(1, 3)).map(|_| self.expr(rng, depth - 1)).collect()),
            13 => {
                let x = self.expr(rng, depth - 1);
                if self.at_op.is_none() && rng.chance(1, 2) {
                    let missing = E::Sym { kind: SymKind::Missing, text: "nosuch".to_owned(), target: None };
                    match rng.below(3) {
                        0 => E::Present(Box::new(missing)),
                        1 => E::Present(Box::new(E::Union(vec![x, missing]))),
                        _ => E::Present(Box::new(E::Range(Box::new(missing), Box::new(x)))),
                    }
                } else {
                    E::Present(Box::new(x))
                }
            }
            14 => {
                let op = rng.range(1, self.fx.ops.len() - 1);
                let inner = GenCtx { fx: self.fx, at_op: Some(op) };
                E::AtOp(op, Box::new(inner.expr(rng, depth - 1)))
            }
            15 => E::Not(sub(rng)),
            16 => E::Union((0..rng.range(2, 3)).map(|_| self.expr(rng, depth - 1)).collect()),
            17 => E::Inter(sub(rng), sub(rng)),
            _ => E::Diff(sub(rng), sub(rng)),
        }
    }
}

// ---------------------------------------------------------------------------
// Rendering to text (jj's own syntax) and building through the API

const P_OR: u8 = 1;
const P_AND: u8 = 2;
const P_NEG: u8 = 3;
const P_RANGE: u8 = 4;
const P_POSTFIX: u8 = 6;
const P_ATOM: u8 = 7;

struct Renderer<'a> {
    fx: &'a Fixture,
    /// Parenthesise every non-atomic operand (otherwise only where the grammar needs it).
    full: bool,
    /// Name commits `c<index>` instead of by hex id (for witnesses).
    symbolic: bool,
}

#[derive(Clone, Copy)]
enum TextForm {
    At(u64),
    Upto(Option<u64>),
}

fn text_forms(lo: u64, hi: Option<u64>) -> Vec<TextForm> {
    let mut v = vec![];
    if hi == Some(lo.wrapping_add(1)) && lo < u32::MAX as u64 {
        v.push(TextForm::At(lo));
    }
    if lo == 0 {
        v.push(TextForm::Upto(hi));
    }
    v
}

impl Renderer<'_> {
    fn commit(&self, c: usize) -> String {
        if self.symbolic { format!("c{c}") } else { self.fx.dag.id(c).hex() }
    }

    fn wrap(&self, e: &E, min: u8) -> Option<String> {
        let (s, p) = self.render(e)?;
        Some(if p < min || (self.full && p < P_ATOM) { format!("({s})") } else { s })
    }

    fn arg(&self, e: &E) -> Option<String> {
        Some(self.render(e)?.0)
    }

    fn pat(&self, p: &Pat) -> String {
        match p {
            Pat::All => String::new(),
            Pat::Exact(s) => format!("exact:\"{s}\""),
            Pat::Glob(s) => {
                if self.full { format!("glob:\"{s}*\"") } else { format!("\"{s}*\"") }
            }
            Pat::Substring(s) => format!("substring:\"{s}\""),
        }
    }

    /// `None`: the expression has no textual form (general generation ranges).
    fn render(&self, e: &E) -> Option<(String, u8)> {
        Some(match e {
            E::None => ("none()".into(), P_ATOM),
            E::All => ("all()".into(), P_ATOM),
            E::VisibleHeads => ("visible_heads()".into(), P_ATOM),
            E::Root => ("root()".into(), P_ATOM),
            E::Merges => ("merges()".into(), P_ATOM),
            E::Forks => ("forks()".into(), P_ATOM),
            E::DagAll => ("::".into(), P_RANGE),
            E::RangeAll => ("..".into(), P_RANGE),
            E::Commits(v) => {
                if v.len() == 1 {
                    (self.commit(v[0]), P_ATOM)
                } else if v.is_empty() {
                    ("none()".into(), P_ATOM)
                } else {
                    (v.iter().map(|c| self.commit(*c)).collect::<Vec<_>>().join(" | "), P_OR)
                }
            }
            E::Sym { kind, text, target } => match kind {
                SymKind::Bookmark | SymKind::Tag | SymKind::Missing => {
                    if self.full { (format!("\"{text}\""), P_ATOM) } else { (text.clone(), P_ATOM) }
                }
                SymKind::ChangeId if self.symbolic => (format!("change_of_c{}", target.unwrap()), P_ATOM),
                SymKind::ChangeId => (text.clone(), P_ATOM),
                SymKind::CommitIdFn if self.symbolic => (format!("commit_id(c{})", target.unwrap()), P_ATOM),
                SymKind::CommitIdFn => (format!("commit_id({text})"), P_ATOM),
                SymKind::ChangeIdFn if self.symbolic => (format!("change_id(change_of_c{})", target.unwrap()), P_ATOM),
                SymKind::ChangeIdFn => (format!("change_id({text})"), P_ATOM),
            },
            E::Bookmarks(p) => (format!("bookmarks({})", self.pat(p)), P_ATOM),
            E::Tags(p) => (format!("tags({})", self.pat(p)), P_ATOM),
            E::Walk { x, dir, first, lo, hi, style } => {
                let forms = text_forms(*lo, *hi);
                if forms.is_empty() {
                    if self.symbolic {
                        let name = match (dir, first) {
                            (Dir::Anc, false) => "ancestors_range",
                            (Dir::Anc, true) => "first_ancestors_range",
                            (Dir::Desc, _) => "descendants_range",
                        };
                        return Some((format!("{name}({}, {lo}..{hi:?})", self.arg(x)?), P_ATOM));
                    }
                    return None;
                }
                let form = forms[(*style as usize / 2) % forms.len()];
                let op_syntax = style % 2 == 0 && !*first;
                match (form, dir) {
                    (TextForm::At(1), Dir::Anc) if op_syntax => (format!("{}-", self.wrap(x, P_POSTFIX)?), P_POSTFIX),
                    (TextForm::At(1), Dir::Desc) if op_syntax => (format!("{}+", self.wrap(x, P_POSTFIX)?), P_POSTFIX),
                    (TextForm::Upto(None), Dir::Anc) if op_syntax => (format!("::{}", self.wrap(x, P_POSTFIX)?), P_RANGE),
                    (TextForm::Upto(None), Dir::Desc) if op_syntax => (format!("{}::", self.wrap(x, P_POSTFIX)?), P_RANGE),
                    (TextForm::At(n), _) => {
                        let name = match (dir, first) {
                            (Dir::Anc, false) => "parents",
                            (Dir::Anc, true) => "first_parent",
                            (Dir::Desc, _) => "children",
                        };
                        if n == 1 && style % 4 < 2 {
                            (format!("{name}({})", self.arg(x)?), P_ATOM)
                        } else {
                            (format!("{name}({}, {n})", self.arg(x)?), P_ATOM)
                        }
                    }
                    (TextForm::Upto(n), _) => {
                        let name = match (dir, first) {
                            (Dir::Anc, false) => "ancestors",
                            (Dir::Anc, true) => "first_ancestors",
                            (Dir::Desc, _) => "descendants",
                        };
                        match n {
                            None => (format!("{name}({})", self.arg(x)?), P_ATOM),
                            Some(n) => (format!("{name}({}, {n})", self.arg(x)?), P_ATOM),
                        }
                    }
                }
            }
            E::Range(a, b) => (format!("{}..{}", self.wrap(a, P_POSTFIX)?, self.wrap(b, P_POSTFIX)?), P_RANGE),
            E::RangePre(x) => (format!("..{}", self.wrap(x, P_POSTFIX)?), P_RANGE),
            E::RangePost(x) => (format!("{}..", self.wrap(x, P_POSTFIX)?), P_RANGE),
            E::DagRange(a, b) => (format!("{}::{}", self.wrap(a, P_POSTFIX)?, self.wrap(b, P_POSTFIX)?), P_RANGE),
            E::Heads(x) => (format!("heads({})", self.arg(x)?), P_ATOM),
            E::Roots(x) => (format!("roots({})", self.arg(x)?), P_ATOM),
            E::ForkPoint(x) => (format!("fork_point({})", self.arg(x)?), P_ATOM),
            E::MergePoint(x) => (format!("merge_point({})", self.arg(x)?), P_ATOM),
            E::Reachable(s, d) => (format!("reachable({}, {})", self.arg(s)?, self.arg(d)?), P_ATOM),
            E::Connected(x) => (format!("connected({})", self.arg(x)?), P_ATOM),
            E::Latest(x, n, explicit) => {
                if *n == 1 && !*explicit {
                    (format!("latest({})", self.arg(x)?), P_ATOM)
                } else {
                    (format!("latest({}, {n})", self.arg(x)?), P_ATOM)
                }
            }
            E::Coalesce(xs) => {
                let args: Option<Vec<String>> = xs.iter().map(|x| self.arg(x)).collect();
                (format!("coalesce({})", args?.join(", ")), P_ATOM)
            }
            E::Present(x) => (format!("present({})", self.arg(x)?), P_ATOM),
            E::AtOp(op, x) => {
                let id = if self.symbolic { format!("op{op}") } else { self.fx.ops[*op].id_hex.clone() };
                (format!("at_operation({id}, {})", self.arg(x)?), P_ATOM)
            }
            E::Not(x) => (format!("~{}", self.wrap(x, P_NEG)?), P_NEG),
            E::Union(xs) => {
                let parts: Option<Vec<String>> = xs.iter().map(|x| self.wrap(x, P_AND)).collect();
                (parts?.join(" | "), P_OR)
            }
            E::Inter(a, b) => (format!("{} & {}", self.wrap(a, P_AND)?, self.wrap(b, P_NEG)?), P_AND),
            E::Diff(a, b) => (format!("{} ~ {}", self.wrap(a, P_AND)?, self.wrap(b, P_NEG)?), P_AND),
        })
    }
}

fn paren_nesting(text: &str) -> usize {
    let mut depth = 0usize;
    let mut max = 0;
    for ch in text.chars() {
        match ch {
            '(' => {
                depth += 1;
                max = max.max(depth);
            }
            ')' => depth = depth.saturating_sub(1),
            _ => {}
        }
    }
    max
}

fn display(fx: &Fixture, e: &E) -> String {
    Renderer { fx, full: false, symbolic: true }.render(e).map(|r| r.0).unwrap_or_else(|| format!("{e:?}"))
}

fn string_expr(p: &Pat) -> StringExpression {
    match p {
        Pat::All => StringExpression::all(),
        Pat::Exact(s) => StringExpression::exact(s.clone()),
        Pat::Glob(s) => StringExpression::pattern(StringPattern::glob(&format!("{s}*")).unwrap()),
        Pat::Substring(s) => StringExpression::substring(s.clone()),
    }
}

fn build_api(fx: &Fixture, e: &E) -> Arc<UserRevsetExpression> {
    let b = |x: &E| build_api(fx, x);
    match e {
        E::None => RevsetExpression::none(),
        E::All | E::DagAll => RevsetExpression::all(),
        E::RangeAll => RevsetExpression::root().negated(),
        E::VisibleHeads => RevsetExpression::visible_heads(),
        E::Root => RevsetExpression::root(),
        E::Merges => RevsetExpression::filter(RevsetFilterPredicate::ParentCount(2..u32::MAX)),
        E::Forks => RevsetExpression::forks(),
        E::Commits(v) => RevsetExpression::commits(v.iter().map(|c| fx.dag.id(*c).clone()).collect()),
        E::Sym { kind, text, .. } => match kind {
            SymKind::Bookmark | SymKind::Tag | SymKind::ChangeId | SymKind::Missing => {
                RevsetExpression::symbol(text.clone())
            }
            SymKind::CommitIdFn => RevsetExpression::commit_id_prefix(HexPrefix::try_from_hex(text).unwrap()),
            SymKind::ChangeIdFn => {
                RevsetExpression::change_id_prefix(HexPrefix::try_from_reverse_hex(text).unwrap())
            }
        },
        E::Bookmarks(p) => RevsetExpression::bookmarks(string_expr(p)),
        E::Tags(p) => RevsetExpression::tags(string_expr(p)),
        E::Walk { x, dir, first, lo, hi, style } => {
            let x = b(x);
            let range = *lo..hi.unwrap_or(u64::MAX);
            let at = (*hi == Some(lo.wrapping_add(1))).then_some(*lo);
            let short = style % 2 == 0;
            match (dir, first) {
                (Dir::Anc, false) => match (at, lo, hi) {
                    (Some(1), _, _) if short => x.parents(),
                    (Some(n), _, _) if short => x.ancestors_at(n),
                    (_, 0, None) if short => x.ancestors(),
                    _ => x.ancestors_range(range),
                },
                (Dir::Anc, true) => match (at, lo, hi) {
                    (Some(n), _, _) if short => x.first_ancestors_at(n),
                    (_, 0, None) if short => x.first_ancestors(),
                    _ => x.first_ancestors_range(range),
                },
                (Dir::Desc, _) => match (at, lo, hi) {
                    (Some(1), _, _) if short => x.children(),
                    (Some(n), _, _) if short => x.descendants_at(n),
                    (_, 0, None) if short => x.descendants(),
                    _ => x.descendants_range(range),
                },
            }
        }
        E::Range(x, y) => b(x).range(&b(y)),
        E::RangePre(x) => RevsetExpression::root().range(&b(x)),
        E::RangePost(x) => b(x).ancestors().negated(),
        E::DagRange(x, y) => b(x).dag_range_to(&b(y)),
        E::Heads(x) => b(x).heads(),
        E::Roots(x) => b(x).roots(),
        E::ForkPoint(x) => b(x).fork_point(),
        E::MergePoint(x) => b(x).merge_point(),
        E::Reachable(s, d) => b(s).reachable(&b(d)),
        E::Connected(x) => b(x).connected(),
        E::Latest(x, n, _) => b(x).latest(*n),
        E::Coalesce(xs) => RevsetExpression::coalesce(&xs.iter().map(b).collect::<Vec<_>>()),
        E::Present(x) => b(x).present(),
        E::AtOp(op, x) => Arc::new(RevsetExpression::AtOperation {
            operation: fx.ops[*op].id_hex.clone(),
            candidates: b(x),
        }),
        E::Not(x) => b(x).negated(),
        E::Union(xs) => {
            let parts: Vec<_> = xs.iter().map(b).collect();
            if parts.len() == 3 && matches!(xs[0], E::Commits(_)) {
                // left-nested instead of the balanced tree union_all() builds
                parts[0].union(&parts[1]).union(&parts[2])
            } else {
                RevsetExpression::union_all(&parts)
            }
        }
        E::Inter(x, y) => b(x).intersection(&b(y)),
        E::Diff(x, y) => b(x).minus(&b(y)),
    }
}

// ---------------------------------------------------------------------------
// Running the real code

fn symbol_resolver(repo: &dyn Repo) -> SymbolResolver<'_> {
    SymbolResolver::new(repo, &([] as [&Box<dyn SymbolResolverExtension>; 0]))
}

fn parse_text(text: &str) -> Result<Arc<UserRevsetExpression>, String> {
    let aliases = RevsetAliasesMap::default();
    let fileset_aliases = FilesetAliasesMap::new();
    let extensions = RevsetExtensions::default();
    let now = Timestamp { timestamp: MillisSinceEpoch(1_700_000_000_000), tz_offset: 0 };
    let context = RevsetParseContext {
        aliases_map: &aliases,
        local_variables: HashMap::new(),
        user_email: "v@example.com",
        date_pattern_context: now.to_datetime().unwrap().into(),
        default_ignored_remote: None,
        fileset_aliases_map: &fileset_aliases,
        extensions: &extensions,
        workspace: None,
    };
    revset::parse(&mut RevsetDiagnostics::new(), text, &context).map_err(|e| e.to_string())
}

fn resolve(fx: &Fixture, user: &Arc<UserRevsetExpression>, what: &str) -> Result<Arc<ResolvedRevsetExpression>, Fail> {
    let resolver = symbol_resolver(fx.repo.as_ref());
    user.resolve_user_expression(fx.repo.as_ref(), &resolver).map_err(|e| Fail {
        clause: "resolve.error".to_owned(),
        message: format!("{what}: name resolution failed: {e}"),
    })
}

#[derive(Clone, Copy, Debug, PartialEq, Eq)]
enum Mode {
    Optimized,
    Unoptimized,
    OptimizedTwice,
}

fn evaluate(fx: &Fixture, resolved: &Arc<ResolvedRevsetExpression>, mode: Mode, what: &str) -> Result<Vec<usize>, Fail> {
    let repo: &dyn Repo = fx.repo.as_ref();
    let revset = match mode {
        Mode::Optimized => resolved.clone().evaluate(repo),
        Mode::Unoptimized => resolved.evaluate_unoptimized(repo),
        Mode::OptimizedTwice => revset::optimize(revset::optimize(resolved.clone())).evaluate_unoptimized(repo),
    };
    let revset = revset.map_err(|e| Fail {
        clause: "evaluate.error".to_owned(),
        message: format!("{what} ({mode:?}): evaluation failed: {e}"),
    })?;
    let ids = collect_ids(revset.as_ref())
        .map_err(|m| Fail { clause: "evaluate.error".to_owned(), message: format!("{what} ({mode:?}): {m}") })?;
    fx.idx_of(&ids, "result.only_known_commits")
}

/// Membership test through `containing_fn` for every known commit.
fn check_containing(fx: &Fixture, resolved: &Arc<ResolvedRevsetExpression>, expected: &Set, what: &str) -> Check {
    let repo: &dyn Repo = fx.repo.as_ref();
    let revset = resolved.clone().evaluate(repo).map_err(|e| Fail {
        clause: "evaluate.error".to_owned(),
        message: format!("{what}: evaluation failed: {e}"),
    })?;
    let contains = revset.containing_fn();
    for c in 0..fx.n() {
        let got = contains(fx.dag.id(c)).block_on().map_err(|e| Fail {
            clause: "evaluate.error".to_owned(),
            message: format!("{what}: containing_fn failed: {e}"),
        })?;
        ensure!(
            got == expected.contains(&c),
            "containing_fn.matches_set",
            "{}: containing_fn(c{}) = {} but the set {} it",
            what,
            c,
            got,
            if expected.contains(&c) { "contains" } else { "does not contain" }
        );
    }
    Ok(())
}

struct ExprOutcome {
    hash: u64,
    nontrivial: bool,
}

fn check_expression(ctx: &Ctx, fx: &Fixture, rng: &mut Rng, e: &E, shape: u64) -> Result<ExprOutcome, Fail> {
    let shown = display(fx, e);
    let model = Model::new(fx);
    let expected = model.eval_top(e);
    let ambiguous = model.ambiguous.get();
    let expected_v: Vec<usize> = expected.iter().rev().copied().collect();

    let api = build_api(fx, e);
    let resolved = resolve(fx, &api, &shown)?;
    let opt = evaluate(fx, &resolved, Mode::Optimized, &shown)?;
    fx.check_order(&opt, &shown)?;
    let got: Set = opt.iter().copied().collect();
    if ambiguous {
        ctx.count("skipped_set_check_latest_timestamp_tie");
    } else {
        ensure!(
            got == expected,
            "set.equals_definition",
            "{}: evaluated to {:?} but its definition denotes {:?} (extra {:?}, missing {:?})",
            shown,
            opt,
            expected_v,
            got.difference(&expected).collect::<Vec<_>>(),
            expected.difference(&got).collect::<Vec<_>>()
        );
    }
    let unopt = evaluate(fx, &resolved, Mode::Unoptimized, &shown)?;
    fx.check_order(&unopt, &shown)?;
    if !ambiguous {
        let got_unopt: Set = unopt.iter().copied().collect();
        ensure!(
            got_unopt == expected,
            "set.equals_definition.unoptimized",
            "{}: unoptimized evaluation gives {:?} but the definition denotes {:?}",
            shown,
            unopt,
            expected_v
        );
    }
    ensure!(
        opt == unopt,
        "optimized.equals_unoptimized",
        "{}: optimized evaluation gives {:?}, unoptimized gives {:?}",
        shown,
        opt,
        unopt
    );
    if rng.chance(1, 4) {
        let twice = evaluate(fx, &resolved, Mode::OptimizedTwice, &shown)?;
        ensure!(
            twice == opt,
            "optimized.idempotent",
            "{}: optimizing twice gives {:?}, once gives {:?}",
            shown,
            twice,
            opt
        );
        ctx.count("optimized_twice_compared");
    }
    if !ambiguous && rng.chance(1, 3) {
        check_containing(fx, &resolved, &expected, &shown)?;
        ctx.count("containing_fn_checked");
    }

    // The same expression as text.
    let full = rng.chance(1, 3);
    let text = Renderer { fx, full, symbolic: false }.render(e).map(|r| r.0);
    match text {
        None => ctx.count("built_api_only_no_text_form"),
        Some(text) if paren_nesting(&text) > 6 => ctx.count("text_skipped_nesting_over_6"),
        Some(text) => {
            let parsed = match parse_text(&text) {
                Ok(p) => p,
                Err(err) => return Err(Fail {
                    clause: "parse.accepts_generated_text".to_owned(),
                    message: format!("{shown}: text {text:?} failed to parse: {err}"),
                }),
            };
            let resolved_text = resolve(fx, &parsed, &shown)?;
            let t_opt = evaluate(fx, &resolved_text, Mode::Optimized, &shown)?;
            let t_unopt = evaluate(fx, &resolved_text, Mode::Unoptimized, &shown)?;
            ensure!(
                t_opt == t_unopt,
                "optimized.equals_unoptimized",
                "{} (parsed from text): optimized gives {:?}, unoptimized gives {:?}",
                shown,
                t_opt,
                t_unopt
            );
            if ambiguous {
                fx.check_order(&t_opt, &shown)?;
            } else {
                ensure!(
                    t_opt == opt,
                    "text.equals_api",
                    "{}: parsed from text {:?} it evaluates to {:?}, built through the API to {:?} (definition: {:?})",
                    shown,
                    text,
                    t_opt,
                    opt,
                    expected_v
                );
            }
            ctx.count("built_text_and_api");
            if !full {
                ctx.count("text_minimal_parentheses");
            }
            ctx.max("max_text_paren_nesting", paren_nesting(&text) as u64);
        }
    }

    // Evidence: what was observed.
    let mut has_op = false;
    let mut mentions_hidden = false;
    e.visit(&mut |n| {
        ctx.count(&format!("op_{}", n.kind()));
        if !n.is_leaf() {
            has_op = true;
        }
        match n {
            E::Commits(v) if v.iter().any(|c| !fx.visible.contains(c)) => mentions_hidden = true,
            E::Sym { target: Some(c), .. } if !fx.visible.contains(c) => mentions_hidden = true,
            _ => {}
        }
    });
    if mentions_hidden {
        ctx.count("expr_mentions_hidden_commit");
    }
    if expected.iter().any(|c| !fx.visible.contains(c)) {
        ctx.count("result_contains_hidden_commit");
    }
    if expected.is_empty() {
        ctx.count("result_empty");
    }
    ctx.count_n("result_commits_total", expected.len() as u64);
    let nontrivial = has_op && !expected.is_empty() && !ambiguous;
    if nontrivial && ctx.wants_sample() {
        ctx.sample(|| json!({"expr": shown, "result": opt, "fixture": fx.to_json()}));
    }
    Ok(ExprOutcome { hash: stable_hash(&(shape, e)), nontrivial })
}

pub fn run_c19(ctx: &Ctx) -> i32 {
    ctx.set_rule(
        "per case a fresh repo: random DAG (merges up to 3 parents) written over 2-6 transactions, \
         commits abandoned/rewritten + rebase_descendants (hidden but indexed commits), bookmarks \
         (one may be conflicted) and tags; per repo a batch of random expression trees (depth<=4) \
         over commits (also hidden, by id), symbols (bookmark, tag, change id), commit_id()/change_id(), \
         bookmarks()/tags() with patterns, none/all/visible_heads/root/merges/forks/::/.., parents/children, \
         ancestors/descendants/first_ancestors with generation ranges, x..y ..x x.. x::y, heads, roots, \
         fork_point, merge_point, reachable, connected, latest, coalesce, present (also with an unknown \
         name), at_operation scopes, ~ | & ~; built through the RevsetExpression API and as text \
         (minimal or full parentheses, nesting<=6). Reference: plain-set evaluator over the harness' own \
         DAG record; universe = ancestors of visible heads and of every mentioned commit. \
         Non-trivial: expression has an operator, denotes a non-empty set, no latest() timestamp tie. \
         Distinct: by (DAG shape, hidden set, refs, expression).",
    );
    ctx.assume("visible heads are taken from the view (monitored by C10); the global newest-first order is the evaluation order of commits(<all known ids>)");
    let n = ctx.tier().pick(750, 60_000);
    let per_repo = 24;
    par_cases(ctx, n, threads(), |i, cs, rng| {
        let last: RefCell<Value> = RefCell::new(json!({"stage": "building fixture"}));
        let mut outcomes: Vec<ExprOutcome> = vec![];
        run_case(ctx, i, cs, || last.borrow().clone(), || {
            let opts = FixtureOptions { max_first: 12, max_later: 5, hide_percent: 75 };
            let mut fx = build_fixture(rng, &opts);
            *last.borrow_mut() = json!({"stage": "global order", "fixture": fx.to_json()});
            fx.init_order()?;
            ctx.count_n("dag_commits_total", fx.n() as u64);
            ctx.count_n("hidden_commits_total", fx.hidden.len() as u64);
            ctx.count_n("commits_rewritten", fx.n_rewritten as u64);
            ctx.count_n("commits_abandoned", fx.n_abandoned as u64);
            ctx.count_n("operations_total", fx.ops.len() as u64);
            if !fx.hidden.is_empty() {
                ctx.count("repos_with_hidden_commits");
            }
            if fx.bookmarks.values().any(|t| t.len() > 1) {
                ctx.count("repos_with_conflicted_bookmark");
            }
            let shape = fx.shape_hash();
            let fixture_json = fx.to_json();
            for _ in 0..per_repo {
                let depth = rng.range(1, 4);
                let e = GenCtx { fx: &fx, at_op: None }.expr(rng, depth);
                *last.borrow_mut() = json!({"expr": display(&fx, &e), "fixture": fixture_json});
                outcomes.push(check_expression(ctx, &fx, rng, &e, shape)?);
            }
            Ok(())
        });
        for o in &outcomes {
            ctx.case(o.hash, o.nontrivial);
        }
        ctx.count("repos");
    });
    ctx.finish(2000)
}

// ---------------------------------------------------------------------------
// C39: graph edges

type Node = (CommitId, Vec<GraphEdge<CommitId>>);

#[derive(Default)]
struct GraphStats {
    nodes: u64,
    direct: u64,
    indirect: u64,
    missing: u64,
}

/// Is there a path `from -> .. -> to` (at least one edge) whose interior
/// commits are all outside `shown`?
fn reachable_through_hidden(fx: &Fixture, from: usize, to: usize, shown: &Set) -> bool {
    let mut seen = Set::new();
    let mut stack: Vec<usize> = fx.dag.nodes[from].parents.clone();
    while let Some(c) = stack.pop() {
        if c == to {
            return true;
        }
        if shown.contains(&c) || !seen.insert(c) {
            continue;
        }
        // only worth following if `to` is still an ancestor
        if fx.anc[c].contains(&to) {
            stack.extend(fx.dag.nodes[c].parents.iter().copied());
        }
    }
    false
}

/// Checks one `(node, edges)` stream. Returns per-node transitive closure of
/// the non-missing edges.
fn check_graph(
    fx: &Fixture,
    nodes: &[Node],
    what: &str,
    index_order: bool,
    stats: &mut GraphStats,
) -> Result<BTreeMap<usize, Set>, Fail> {
    let ids: Vec<CommitId> = nodes.iter().map(|n| n.0.clone()).collect();
    let order = fx.idx_of(&ids, "nodes.only_known_commits")?;
    let shown: Set = order.iter().copied().collect();
    ensure!(shown.len() == order.len(), "nodes.no_duplicates", "{}: a commit is shown twice: {:?}", what, order);
    if index_order {
        for w in order.windows(2) {
            ensure!(
                fx.order_pos[w[0]] < fx.order_pos[w[1]],
                "nodes.newest_first",
                "{}: c{} is shown before c{} against the global newest-first order; nodes {:?}",
                what,
                w[0],
                w[1],
                order
            );
        }
    }
    for (k, a) in order.iter().enumerate() {
        for b in &order[k + 1..] {
            ensure!(
                !fx.anc[*b].contains(a),
                "nodes.before_ancestors",
                "{}: c{} is shown before its descendant c{}; nodes {:?}",
                what,
                a,
                b,
                order
            );
        }
    }
    let mut edges_idx: BTreeMap<usize, Vec<(usize, GraphEdgeType)>> = BTreeMap::new();
    for (n, (_, edges)) in order.iter().zip(nodes) {
        let mut list = vec![];
        for edge in edges {
            let Some(t) = fx.dag.idx(&edge.target) else {
                return Err(Fail {
                    clause: "edges.only_known_commits".to_owned(),
                    message: format!("{what}: c{n} has an edge to unknown commit {}", edge.target.hex()),
                });
            };
            list.push((t, edge.edge_type));
            match edge.edge_type {
                GraphEdgeType::Direct => {
                    stats.direct += 1;
                    ensure!(
                        shown.contains(&t) && fx.dag.nodes[*n].parents.contains(&t),
                        "edge.direct_is_shown_parent",
                        "{}: direct edge c{} -> c{} but the target is {}; shown {:?}",
                        what,
                        n,
                        t,
                        if shown.contains(&t) { "not a parent" } else { "not shown" },
                        order
                    );
                }
                GraphEdgeType::Indirect => {
                    stats.indirect += 1;
                    ensure!(
                        shown.contains(&t) && t != *n && fx.anc[*n].contains(&t),
                        "edge.indirect_is_shown_ancestor",
                        "{}: indirect edge c{} -> c{} but the target is not a shown proper ancestor; shown {:?}",
                        what,
                        n,
                        t,
                        order
                    );
                    ensure!(
                        reachable_through_hidden(fx, *n, t, &shown),
                        "edge.indirect_only_through_unshown",
                        "{}: indirect edge c{} -> c{} but every path between them passes through a shown commit; shown {:?}",
                        what,
                        n,
                        t,
                        order
                    );
                }
                GraphEdgeType::Missing => {
                    stats.missing += 1;
                    ensure!(
                        !shown.contains(&t),
                        "edge.missing_is_not_shown",
                        "{}: missing edge c{} -> c{} but the target is shown; shown {:?}",
                        what,
                        n,
                        t,
                        order
                    );
                }
            }
        }
        edges_idx.insert(*n, list);
    }
    stats.nodes += order.len() as u64;
    // Transitive closure of the non-missing edges. Ancestors have larger
    // DAG-independent "depth": process shown commits parents-first (DAG index order).
    let mut closure: BTreeMap<usize, Set> = BTreeMap::new();
    for n in &shown {
        let mut c = Set::new();
        for (t, ty) in &edges_idx[n] {
            if *ty == GraphEdgeType::Missing || !shown.contains(t) {
                continue;
            }
            c.insert(*t);
            // t is a proper ancestor (checked above) hence has a smaller DAG index
            if let Some(tc) = closure.get(t) {
                c.extend(tc.iter().copied());
            }
        }
        closure.insert(*n, c);
    }
    for n in &shown {
        let want: Set = fx.anc[*n].intersection(&shown).copied().filter(|a| a != n).collect();
        let got = &closure[n];
        ensure!(
            want.is_subset(got),
            "closure.covers_ancestry",
            "{}: c{} has shown ancestors {:?} but the edges only imply {:?}; shown {:?}, edges {:?}",
            what,
            n,
            want,
            got,
            order,
            edges_idx
        );
        ensure!(
            got.is_subset(&want),
            "closure.implies_only_ancestry",
            "{}: edges imply that c{} descends from {:?} but its shown ancestors are {:?}",
            what,
            n,
            got,
            want
        );
    }
    Ok(closure)
}

fn check_c39_case(ctx: &Ctx, fx: &Fixture, rng: &mut Rng, e: &E, shape: u64) -> Result<ExprOutcome, Fail> {
    let shown_text = display(fx, e);
    let model = Model::new(fx);
    let expected = model.eval_top(e);
    let ambiguous = model.ambiguous.get();
    let repo: &dyn Repo = fx.repo.as_ref();
    let resolved = resolve(fx, &build_api(fx, e), &shown_text)?;
    // to_backend_expression() needs the mentioned commits collected first,
    // which only optimize() and evaluate_unoptimized() do.
    let backend = revset::optimize(resolved.clone()).to_backend_expression(repo);
    let index: &DefaultReadonlyIndex = fx
        .repo
        .readonly_index()
        .downcast_ref()
        .expect("default index");
    let eval_err = |e: jj_lib::revset::RevsetEvaluationError| Fail {
        clause: "evaluate.error".to_owned(),
        message: format!("{shown_text}: {e}"),
    };
    let revset_impl = index.evaluate_revset_impl(&backend, repo.store()).map_err(eval_err)?;
    let mut stats = GraphStats::default();
    let keep: Vec<Node> = revset_impl.iter_graph_impl(false).collect::<Result<_, _>>().map_err(eval_err)?;
    let skip: Vec<Node> = revset_impl.iter_graph_impl(true).collect::<Result<_, _>>().map_err(eval_err)?;
    let closure_keep = check_graph(fx, &keep, &format!("{shown_text} [all edges]"), true, &mut stats)?;
    let closure_skip = check_graph(fx, &skip, &format!("{shown_text} [transitive edges skipped]"), true, &mut stats)?;
    let nodes_keep: Vec<&CommitId> = keep.iter().map(|n| &n.0).collect();
    let nodes_skip: Vec<&CommitId> = skip.iter().map(|n| &n.0).collect();
    ensure!(
        nodes_keep == nodes_skip,
        "skip_transitive.same_nodes",
        "{}: node lists differ with and without transitive-edge skipping",
        shown_text
    );
    ensure!(
        closure_keep == closure_skip,
        "skip_transitive.same_closure",
        "{}: closure of edges differs: all edges {:?}, skipped {:?}",
        shown_text,
        closure_keep,
        closure_skip
    );
    let shown: Set = closure_keep.keys().copied().collect();
    if !ambiguous {
        ensure!(
            shown == expected,
            "nodes.are_the_revset",
            "{}: graph shows {:?} but the revset denotes {:?}",
            shown_text,
            shown,
            expected
        );
    }
    let n_edges = |g: &[Node]| g.iter().map(|n| n.1.len()).sum::<usize>();
    if n_edges(&skip) < n_edges(&keep) {
        ctx.count("graphs_where_transitive_edges_were_skipped");
    }

    // The trait method used by `jj log` (skips transitive edges).
    let revset = resolved.clone().evaluate(repo).map_err(eval_err)?;
    let streamed: Vec<Node> = revset.stream_graph().try_collect().block_on().map_err(eval_err)?;
    ensure!(
        streamed == skip,
        "stream_graph.equals_skip_mode",
        "{}: stream_graph() differs from iter_graph_impl(true)",
        shown_text
    );
    let plain = collect_ids(revset.as_ref()).map_err(|m| Fail { clause: "evaluate.error".into(), message: m })?;
    ensure!(
        plain.iter().collect::<Vec<_>>() == nodes_skip,
        "nodes.same_as_plain_iteration",
        "{}: graph nodes differ from the plain iteration of the revset",
        shown_text
    );

    // Topologically grouped, as the log renders it.
    let mut grouped_builder = TopoGroupedGraph::new(revset.stream_graph(), |id| id);
    if !streamed.is_empty() && rng.bool() {
        grouped_builder.prioritize_branch(streamed[rng.below(streamed.len())].0.clone());
        ctx.count("topo_grouped_with_prioritized_branch");
    }
    let grouped: Vec<Node> = grouped_builder.stream().try_collect().block_on().map_err(eval_err)?;
    let closure_grouped = check_graph(fx, &grouped, &format!("{shown_text} [topo-grouped]"), false, &mut stats)?;
    ensure!(
        closure_grouped == closure_skip,
        "topo_grouped.same_closure",
        "{}: topo-grouped graph implies different ancestry: {:?} vs {:?}",
        shown_text,
        closure_grouped,
        closure_skip
    );

    // Reversed (`jj log --reversed`): edges are transposed, missing edges vanish.
    let reversed: Vec<Node> =
        reverse_graph(skip.iter().cloned().map(Ok::<_, Infallible>), |id| id).unwrap_or_else(|e| match e {});
    let rev_nodes: Vec<&CommitId> = reversed.iter().map(|n| &n.0).collect();
    let mut expect_rev = nodes_skip.clone();
    expect_rev.reverse();
    ensure!(rev_nodes == expect_rev, "reversed.nodes_oldest_first", "{}: reversed graph is not the reversed node list", shown_text);
    let mut fwd: BTreeSet<(CommitId, CommitId, u8)> = BTreeSet::new();
    let ty = |t: GraphEdgeType| match t {
        GraphEdgeType::Missing => 0u8,
        GraphEdgeType::Direct => 1,
        GraphEdgeType::Indirect => 2,
    };
    for (n, edges) in &skip {
        for edge in edges {
            if !edge.is_missing() {
                fwd.insert((n.clone(), edge.target.clone(), ty(edge.edge_type)));
            }
        }
    }
    let mut bwd = BTreeSet::new();
    for (n, edges) in &reversed {
        for edge in edges {
            bwd.insert((edge.target.clone(), n.clone(), ty(edge.edge_type)));
        }
    }
    ensure!(fwd == bwd, "reversed.edges_transposed", "{}: reversed graph does not have the transposed edges", shown_text);

    ctx.count_n("nodes_checked", stats.nodes);
    ctx.count_n("edges_direct", stats.direct);
    ctx.count_n("edges_indirect", stats.indirect);
    ctx.count_n("edges_missing", stats.missing);
    if shown.iter().any(|c| !fx.visible.contains(c)) {
        ctx.count("graphs_showing_hidden_commits");
    }
    let has_indirect = skip.iter().any(|n| n.1.iter().any(|e| e.is_indirect()));
    let nontrivial = shown.len() >= 3 && has_indirect;
    if nontrivial && ctx.wants_sample() {
        ctx.sample(|| {
            json!({"revset": shown_text, "shown": shown, "fixture": fx.to_json(),
                   "edges": skip.iter().map(|(n, es)| json!({"node": fx.dag.idx(n), "edges": es.iter().map(|e| json!([format!("{:?}", e.edge_type), fx.dag.idx(&e.target)])).collect::<Vec<_>>()})).collect::<Vec<_>>()})
        });
    }
    Ok(ExprOutcome { hash: stable_hash(&(shape, &shown)), nontrivial })
}

/// Sparse sets: random subsets of all known commits, optionally combined with
/// a random revset so that lazily-walked inputs reach the graph walker too.
fn gen_sparse(rng: &mut Rng, fx: &Fixture) -> E {
    let n = fx.n();
    let density = *rng.pick(&[20usize, 35, 50, 70, 90]);
    let subset: Vec<usize> = (0..n).filter(|_| rng.chance(density, 100)).collect();
    let subset = if subset.is_empty() { vec![rng.below(n)] } else { subset };
    let base = E::Commits(subset);
    let g = GenCtx { fx, at_op: None };
    match rng.below(10) {
        0..=4 => base,
        5 => E::Inter(Box::new(g.expr(rng, 2)), Box::new(base)),
        6 => E::Diff(Box::new(E::All), Box::new(base)),
        7 => E::Union(vec![base, g.expr(rng, 2)]),
        8 => E::Walk { x: Box::new(base), dir: Dir::Anc, first: rng.bool(), lo: 0, hi: Some(rng.range(1, 3) as u64), style: 1 },
        _ => g.expr(rng, 3),
    }
}

pub fn run_c39(ctx: &Ctx) -> i32 {
    ctx.set_rule(
        "per case a fresh repo as in C19 (random DAG with merges, hidden commits, several index segments); \
         per repo a batch of sparse revsets: random subsets (density 20-90%) of all known commits incl. \
         hidden ones, alone or combined with random revset expressions; each rendered through \
         iter_graph_impl(skip_transitive_edges=false/true), Revset::stream_graph(), TopoGroupedGraph (with \
         and without a prioritized branch) and reverse_graph. Ancestry, parents and node order come from \
         the harness' own DAG record. Non-trivial: >=3 shown commits and at least one indirect edge. \
         Distinct: by (DAG shape, shown set).",
    );
    ctx.assume("indirect edge: accepted when some path to the target has only unshown interior commits (a direct parent edge labelled indirect would be accepted; jj never does that)");
    let n = ctx.tier().pick(750, 60_000);
    let per_repo = 16;
    par_cases(ctx, n, threads(), |i, cs, rng| {
        let last: RefCell<Value> = RefCell::new(json!({"stage": "building fixture"}));
        let mut outcomes: Vec<ExprOutcome> = vec![];
        run_case(ctx, i, cs, || last.borrow().clone(), || {
            let opts = FixtureOptions { max_first: 16, max_later: 8, hide_percent: 50 };
            let mut fx = build_fixture(rng, &opts);
            *last.borrow_mut() = json!({"stage": "global order", "fixture": fx.to_json()});
            fx.init_order()?;
            let shape = fx.shape_hash();
            let fixture_json = fx.to_json();
            for _ in 0..per_repo {
                let e = gen_sparse(rng, &fx);
                *last.borrow_mut() = json!({"revset": display(&fx, &e), "fixture": fixture_json});
                outcomes.push(check_c39_case(ctx, &fx, rng, &e, shape)?);
            }
            Ok(())
        });
        for o in &outcomes {
            ctx.case(o.hash, o.nontrivial);
        }
        ctx.count("repos");
    });
    ctx.finish(1000)
}
