//! C01 (simplify / flatten / write-back) and C02 (trivial resolution).

use std::collections::BTreeMap;
use std::fmt::Debug;
use std::hash::Hash;

use jj_lib::merge::Merge;
use jj_lib::merge::SameChange;
use jj_lib::merge::trivial_merge;
use serde_json::json;

use crate::common::*;
use crate::ensure;

pub type Den<T> = BTreeMap<T, i64>;

/// Denotation of a term list: value -> #adds - #removes, zero entries dropped.
pub fn den_terms<T: Ord + Clone>(terms: &[T]) -> Den<T> {
    let mut d = Den::new();
    for (i, t) in terms.iter().enumerate() {
        *d.entry(t.clone()).or_insert(0) += if i % 2 == 0 { 1 } else { -1 };
    }
    d.retain(|_, c| *c != 0);
    d
}

pub fn den<T: Ord + Clone>(m: &Merge<T>) -> Den<T> {
    den_terms(m.as_slice())
}

pub fn den_add<T: Ord + Clone>(a: &mut Den<T>, b: &Den<T>, sign: i64) {
    for (k, v) in b {
        *a.entry(k.clone()).or_insert(0) += sign * v;
    }
    a.retain(|_, c| *c != 0);
}

/// The counting reference for automatic resolution (C02, reused by C04/C07/C12).
pub fn reference_resolve<T: Ord + Clone>(terms: &[T], same_change: SameChange) -> Option<T> {
    let c = den_terms(terms);
    if c.len() == 1 {
        let (v, n) = c.iter().next().unwrap();
        assert_eq!(*n, 1);
        Some(v.clone())
    } else if c.len() == 2 && same_change == SameChange::Accept {
        c.iter().find(|(_, n)| **n > 0).map(|(v, _)| v.clone())
    } else {
        None
    }
}

fn multiset<T: Ord + Clone>(items: impl Iterator<Item = T>) -> BTreeMap<T, usize> {
    let mut m = BTreeMap::new();
    for i in items {
        *m.entry(i).or_insert(0) += 1;
    }
    m
}

fn is_sub_multiset<T: Ord>(a: &BTreeMap<T, usize>, b: &BTreeMap<T, usize>) -> bool {
    a.iter().all(|(k, n)| b.get(k).is_some_and(|m| m >= n))
}

/// All C01 clauses for one flat merge.
pub fn check_simplify<T>(m: &Merge<T>, fresh: impl Fn(usize) -> T) -> Check
where
    T: Ord + Clone + Debug + Hash,
{
    let s = m.simplify();
    ensure!(s.as_slice().len() % 2 == 1, "simplify.odd", "even length {:?}", s);
    ensure!(
        den(&s) == den(m),
        "simplify.denotation",
        "den({:?}) = {:?} but den(simplify) = den({:?}) = {:?}",
        m,
        den(m),
        s,
        den(&s)
    );
    for a in s.adds() {
        ensure!(
            !s.removes().any(|r| r == a),
            "simplify.no_value_on_both_sides",
            "{:?} simplified to {:?} which has {:?} as side and base",
            m,
            s,
            a
        );
    }
    let ss = s.simplify();
    ensure!(
        ss == s,
        "simplify.idempotent",
        "simplify({:?}) = {:?}, again = {:?}",
        m,
        s,
        ss
    );
    ensure!(
        is_sub_multiset(&multiset(s.adds().cloned()), &multiset(m.adds().cloned()))
            && is_sub_multiset(
                &multiset(s.removes().cloned()),
                &multiset(m.removes().cloned())
            ),
        "simplify.sub_multiset",
        "terms of {:?} are not taken from the same polarity of {:?}",
        s,
        m
    );
    // Write-back of an edit of the simplified form.
    let edited = Merge::from_vec(
        (0..s.as_slice().len())
            .map(&fresh)
            .collect::<Vec<_>>(),
    );
    let back = m.clone().update_from_simplified(edited.clone());
    ensure!(
        back.as_slice().len() == m.as_slice().len(),
        "writeback.arity",
        "{:?} written back into {:?} gives {:?}",
        edited,
        m,
        back
    );
    let mut changed = vec![];
    for (i, (old, new)) in m.iter().zip(back.iter()).enumerate() {
        if old != new {
            changed.push(i);
        }
    }
    for (j, u) in edited.iter().enumerate() {
        let positions: Vec<usize> = back
            .iter()
            .enumerate()
            .filter(|(_, v)| *v == u)
            .map(|(i, _)| i)
            .collect();
        ensure!(
            positions.len() == 1,
            "writeback.each_edit_once",
            "edited term {} ({:?}) lands at positions {:?}: {:?} into {:?} gives {:?}",
            j,
            u,
            positions,
            edited,
            m,
            back
        );
        let pos = positions[0];
        ensure!(
            pos % 2 == j % 2,
            "writeback.polarity",
            "edited term {} lands at position {} of other polarity: {:?} -> {:?}",
            j,
            pos,
            m,
            back
        );
        ensure!(
            m.as_slice()[pos] == s.as_slice()[j],
            "writeback.surviving_position",
            "edited term {} (was {:?}) lands on position {} which held {:?}: m={:?} s={:?}",
            j,
            s.as_slice()[j],
            pos,
            m.as_slice()[pos],
            m,
            s
        );
    }
    ensure!(
        changed.len() == edited.as_slice().len(),
        "writeback.only_surviving_positions",
        "{} positions changed, {} terms edited: m={:?} back={:?}",
        changed.len(),
        edited.as_slice().len(),
        m,
        back
    );
    let back_s = back.simplify();
    ensure!(
        back_s == edited,
        "writeback.simplifies_to_edit",
        "simplify(writeback) = {:?}, edit = {:?}, m = {:?}",
        back_s,
        edited,
        m
    );
    Ok(())
}

fn check_simplify_by(m: &Merge<u8>) -> Check {
    // Lossy key: parity classes. Denotation over keys must be preserved and
    // terms must come from the original with the same polarity.
    let key = |v: &u8| *v % 2;
    let s = m.simplify_by(key);
    ensure!(
        den(&s.map(key)) == den(&m.map(key)),
        "simplify_by.denotation",
        "m={:?} s={:?}",
        m,
        s
    );
    let sk = s.map(key);
    for a in sk.adds() {
        ensure!(
            !sk.removes().any(|r| r == a),
            "simplify_by.no_key_on_both_sides",
            "m={:?} s={:?}",
            m,
            s
        );
    }
    ensure!(
        is_sub_multiset(&multiset(s.adds().copied()), &multiset(m.adds().copied()))
            && is_sub_multiset(
                &multiset(s.removes().copied()),
                &multiset(m.removes().copied())
            ),
        "simplify_by.sub_multiset",
        "m={:?} s={:?}",
        m,
        s
    );
    Ok(())
}

fn gen_terms(rng: &mut Rng, max_terms: usize, alphabet: usize) -> Vec<u8> {
    let sides = rng.range(1, max_terms.div_ceil(2));
    let n = sides * 2 - 1;
    let mut v: Vec<u8> = (0..n).map(|_| rng.below(alphabet) as u8).collect();
    // Plant cancelling pairs.
    if n >= 3 && rng.chance(1, 2) {
        for _ in 0..rng.range(1, 3) {
            let a = rng.below(sides) * 2;
            let r = rng.below(sides - 1) * 2 + 1;
            v[r] = v[a];
        }
    }
    v
}

fn gen_nested(rng: &mut Rng, depth: usize, alphabet: usize) -> Nested {
    if depth == 0 {
        return Nested::Leaf(rng.below(alphabet) as u8);
    }
    let sides = rng.range(1, 3);
    let n = sides * 2 - 1;
    Nested::Node((0..n).map(|_| gen_nested(rng, depth - 1, alphabet)).collect())
}

#[derive(Clone, Debug, Hash)]
enum Nested {
    Leaf(u8),
    Node(Vec<Nested>),
}

impl Nested {
    /// Denotation by independent signed sum.
    fn den(&self) -> Den<u8> {
        match self {
            Self::Leaf(v) => Den::from([(*v, 1)]),
            Self::Node(children) => {
                let mut d = Den::new();
                for (i, c) in children.iter().enumerate() {
                    den_add(&mut d, &c.den(), if i % 2 == 0 { 1 } else { -1 });
                }
                d
            }
        }
    }
    fn leaves(&self) -> usize {
        match self {
            Self::Leaf(_) => 1,
            Self::Node(c) => c.iter().map(|c| c.leaves()).sum(),
        }
    }
    fn m1(&self) -> Merge<u8> {
        match self {
            Self::Leaf(_) => unreachable!(),
            Self::Node(c) => Merge::from_vec(
                c.iter()
                    .map(|c| match c {
                        Self::Leaf(v) => *v,
                        Self::Node(_) => unreachable!(),
                    })
                    .collect::<Vec<_>>(),
            ),
        }
    }
    fn m2(&self) -> Merge<Merge<u8>> {
        match self {
            Self::Leaf(_) => unreachable!(),
            Self::Node(c) => Merge::from_vec(c.iter().map(|c| c.m1()).collect::<Vec<_>>()),
        }
    }
    fn m3(&self) -> Merge<Merge<Merge<u8>>> {
        match self {
            Self::Leaf(_) => unreachable!(),
            Self::Node(c) => Merge::from_vec(c.iter().map(|c| c.m2()).collect::<Vec<_>>()),
        }
    }
}

fn check_flatten(n: &Nested, depth: usize) -> Check {
    let expect = n.den();
    let leaves = n.leaves();
    if depth == 2 {
        let f = n.m2().flatten();
        ensure!(
            f.as_slice().len() == leaves,
            "flatten.length",
            "{:?} flattens to {:?}",
            n,
            f
        );
        ensure!(
            den(&f) == expect,
            "flatten.denotation",
            "{:?} flattens to {:?}: {:?} != {:?}",
            n,
            f,
            den(&f),
            expect
        );
        check_simplify(&f, |i| 100 + i as u8)?;
    } else {
        let outer_first = n.m3().flatten().flatten();
        let inner_first = n.m3().into_map(|mm| mm.flatten()).flatten();
        for (name, f) in [("outer_first", &outer_first), ("inner_first", &inner_first)] {
            ensure!(
                f.as_slice().len() == leaves,
                "flatten3.length",
                "{} {:?} -> {:?}",
                name,
                n,
                f
            );
            ensure!(
                den(f) == expect,
                "flatten3.denotation",
                "{} {:?} -> {:?}: {:?} != {:?}",
                name,
                n,
                f,
                den(f),
                expect
            );
        }
    }
    Ok(())
}

fn for_each_terms(alphabet: usize, max_terms: usize, mut f: impl FnMut(&[u8])) {
    let mut n = 1;
    while n <= max_terms {
        let mut v = vec![0u8; n];
        loop {
            f(&v);
            let mut i = 0;
            loop {
                if i == n {
                    break;
                }
                v[i] += 1;
                if (v[i] as usize) < alphabet {
                    break;
                }
                v[i] = 0;
                i += 1;
            }
            if i == n {
                break;
            }
        }
        n += 2;
    }
}

pub fn run_c01(ctx: &Ctx) -> i32 {
    ctx.set_rule(
        "exhaustive: every odd-length term list up to the stated bound over a small u8 alphabet; \
         random: arity<=15 over alphabets 1..5 with planted cancelling pairs, Option<u8> terms, \
         nested Merge<Merge<..>> depth 2 and 3, simplify_by with a lossy key. Non-trivial: >=3 terms \
         and some value is both a side and a base (simplification has work to do), or nested. \
         Distinct: by term list / nested shape.",
    );
    let tier = ctx.tier();
    // Exhaustive part.
    let bounds: &[(usize, usize)] = tier.pick(&[(3, 7), (4, 5), (2, 9)], &[(3, 11), (4, 9), (5, 7), (2, 15)]);
    let mut index = 0u64;
    for &(alphabet, max_terms) in bounds {
        for_each_terms(alphabet, max_terms, |terms| {
            if ctx.violations() >= 5 {
                return;
            }
            let m = Merge::from_vec(terms.to_vec());
            let nontrivial = terms.len() >= 3 && m.adds().any(|a| m.removes().any(|r| r == a));
            ctx.case(stable_hash(terms), nontrivial);
            index += 1;
            run_case(
                ctx,
                index,
                0,
                || json!({"kind": "exhaustive", "terms": terms}),
                || {
                    check_simplify(&m, |i| 100 + i as u8)?;
                    check_simplify_by(&m)
                },
            );
            ctx.count("exhaustive_lists");
        });
        ctx.count_n(&format!("exhaustive_alphabet{alphabet}_max_terms"), max_terms as u64);
    }
    ctx.set_exhaustive(true);
    ctx.set_extra(
        "exhaustive_bounds",
        json!(bounds.iter().map(|(a, t)| json!({"alphabet": a, "max_terms": t})).collect::<Vec<_>>()),
    );
    // Random part.
    let n = tier.pick(1_600_000, 20_000_000);
    par_cases(ctx, n, threads(), |i, cs, rng| {
        let kind = rng.below(10);
        if kind < 5 {
            let alphabet = rng.range(1, 5);
            let terms = gen_terms(rng, 15, alphabet);
            let m = Merge::from_vec(terms.clone());
            let nontrivial = terms.len() >= 3 && m.adds().any(|a| m.removes().any(|r| r == a));
            ctx.case(stable_hash(&terms), nontrivial);
            ctx.sample(|| json!({"kind": "flat", "terms": terms}));
            ctx.count("random_flat");
            run_case(ctx, i, cs, || json!({"kind": "flat", "terms": terms}), || {
                check_simplify(&m, |i| 100 + i as u8)?;
                check_simplify_by(&m)
            });
        } else if kind < 7 {
            let terms: Vec<Option<u8>> = gen_terms(rng, 11, rng.clone().range(2, 4))
                .into_iter()
                .map(|v| if v == 0 { None } else { Some(v) })
                .collect();
            let m = Merge::from_vec(terms.clone());
            let nontrivial = terms.len() >= 3 && m.adds().any(|a| m.removes().any(|r| r == a));
            ctx.case(stable_hash(&terms), nontrivial);
            ctx.count("random_option");
            run_case(ctx, i, cs, || json!({"kind": "option", "terms": terms}), || {
                check_simplify(&m, |i| Some(100 + i as u8))
            });
        } else {
            let depth = if kind < 9 { 2 } else { 3 };
            let nested = gen_nested(rng, depth, rng.clone().range(1, 4));
            ctx.case(stable_hash(&nested), nested.leaves() >= 3);
            ctx.count(if depth == 2 { "random_nested2" } else { "random_nested3" });
            if depth == 3 {
                ctx.sample(|| json!({"kind": "nested3", "shape": format!("{nested:?}")}));
            }
            run_case(
                ctx,
                i,
                cs,
                || json!({"kind": "nested", "depth": depth, "shape": format!("{nested:?}")}),
                || check_flatten(&nested, depth),
            );
        }
    });
    ctx.finish(1000)
}

// ---------------------------------------------------------------------------
// C02

fn check_trivial(terms: &[u8], rng: Option<&mut Rng>) -> Check {
    for sc in [SameChange::Keep, SameChange::Accept] {
        let expect = reference_resolve(terms, sc);
        let got = trivial_merge(terms, sc);
        ensure!(
            got.copied() == expect,
            "trivial_merge.counting_rule",
            "trivial_merge({:?}, {:?}) = {:?}, counting reference says {:?}",
            terms,
            sc,
            got,
            expect
        );
        if let Some(v) = got {
            ensure!(
                terms.iter().any(|t| std::ptr::eq(t, v)),
                "trivial_merge.returns_element",
                "returned reference is not an element of the input {:?}",
                terms
            );
        }
        let m = Merge::from_vec(terms.to_vec());
        ensure!(
            m.resolve_trivial(sc).copied() == expect,
            "resolve_trivial.counting_rule",
            "Merge({:?}).resolve_trivial({:?}) = {:?}, reference {:?}",
            terms,
            sc,
            m.resolve_trivial(sc),
            expect
        );
    }
    if let Some(rng) = rng {
        // Order independence: permute adds among adds and removes among removes.
        let mut adds: Vec<u8> = terms.iter().step_by(2).copied().collect();
        let mut removes: Vec<u8> = terms.iter().skip(1).step_by(2).copied().collect();
        rng.shuffle(&mut adds);
        rng.shuffle(&mut removes);
        let mut permuted = vec![];
        for i in 0..adds.len() {
            permuted.push(adds[i]);
            if i < removes.len() {
                permuted.push(removes[i]);
            }
        }
        for sc in [SameChange::Keep, SameChange::Accept] {
            ensure!(
                trivial_merge(&permuted, sc).copied() == trivial_merge(terms, sc).copied(),
                "trivial_merge.order_independent",
                "{:?} -> {:?} but permuted {:?} -> {:?} under {:?}",
                terms,
                trivial_merge(terms, sc),
                permuted,
                trivial_merge(&permuted, sc),
                sc
            );
        }
    }
    Ok(())
}

pub fn run_c02(ctx: &Ctx) -> i32 {
    ctx.set_rule(
        "exhaustive: all odd-length term lists up to the stated length over the stated alphabet, both \
         same-change settings; random: up to 41 terms over alphabets 2..6, plus add/remove \
         permutations. Non-trivial: >=5 terms (beyond the 3-way fast path) or a 3-term list with a \
         repeated value. Distinct: by term list.",
    );
    let tier = ctx.tier();
    let (alphabet, max_terms) = tier.pick((4, 7), (4, 9));
    let mut index = 0u64;
    let mut outcomes = [0u64; 4];
    for_each_terms(alphabet, max_terms, |terms| {
        if ctx.violations() >= 5 {
            return;
        }
        let repeated = terms.len() == 3 && (terms[0] == terms[1] || terms[1] == terms[2] || terms[0] == terms[2]);
        ctx.case(stable_hash(terms), terms.len() >= 5 || repeated);
        index += 1;
        let keep = reference_resolve(terms, SameChange::Keep).is_some();
        let accept = reference_resolve(terms, SameChange::Accept).is_some();
        outcomes[usize::from(keep) * 2 + usize::from(accept)] += 1;
        run_case(ctx, index, 0, || json!({"kind": "exhaustive", "terms": terms}), || {
            check_trivial(terms, None)
        });
    });
    ctx.count_n("exhaustive_lists", index);
    ctx.count_n("ref_unresolved_both", outcomes[0]);
    ctx.count_n("ref_resolved_only_under_accept", outcomes[1]);
    ctx.count_n("ref_resolved_both", outcomes[3]);
    ctx.set_exhaustive(true);
    ctx.set_extra("exhaustive_bounds", json!({"alphabet": alphabet, "max_terms": max_terms}));
    let n = tier.pick(2_000_000, 10_000_000);
    par_cases(ctx, n, threads(), |i, cs, rng| {
        let alphabet = rng.range(2, 6);
        let terms = gen_terms(rng, 41, alphabet);
        ctx.case(stable_hash(&terms), terms.len() >= 5);
        ctx.sample(|| json!({"kind": "random", "terms": terms}));
        let resolved = reference_resolve(&terms, SameChange::Accept).is_some();
        ctx.count(if resolved { "random_resolved_accept" } else { "random_unresolved" });
        let mut prng = rng.fork();
        run_case(ctx, i, cs, || json!({"kind": "random", "terms": terms}), || {
            check_trivial(&terms, Some(&mut prng))
        });
    });
    ctx.finish(1000)
}
