//! C23 / C26 / C27: working-copy snapshot monitors.
//!
//! * C23 – snapshots record exactly what is on disk (independent disk model,
//!   edit-script language, reference `.gitignore` matcher for restricted
//!   pattern forms, auto-track matcher, max-new-file-size).
//! * C26 – edits made after jj saved the working-copy state are always
//!   detected (forced timestamps, complete enumeration of a small window).
//! * C27 – sparse patterns change the disk, never the commit.
//!
//! Every snapshot / sparse update runs on a workspace freshly loaded from
//! disk (`Workspace::load`), as the CLI does.

use std::collections::BTreeMap;
use std::collections::BTreeSet;
use std::ffi::CString;
use std::os::unix::ffi::OsStrExt as _;
use std::os::unix::fs::MetadataExt as _;
use std::os::unix::fs::PermissionsExt as _;
use std::path::Path;
use std::path::PathBuf;

use jj_lib::default_backend_factories::default_working_copy_factories;
use jj_lib::gitignore::GitIgnoreFile;
use jj_lib::local_working_copy::LocalWorkingCopy;
use jj_lib::matchers::EverythingMatcher;
use jj_lib::matchers::Matcher;
use jj_lib::matchers::NothingMatcher;
use jj_lib::matchers::PrefixMatcher;
use jj_lib::merged_tree::MergedTree;
use jj_lib::repo_path::RepoPath;
use jj_lib::repo_path::RepoPathBuf;
use jj_lib::settings::UserSettings;
use jj_lib::working_copy::CheckoutStats;
use jj_lib::working_copy::SnapshotOptions;
use jj_lib::working_copy::SnapshotStats;
use jj_lib::working_copy::UntrackedReason;
use jj_lib::workspace::Workspace;
use pollster::FutureExt as _;
use serde_json::Value;
use serde_json::json;
use testutils::TestRepoBackend;
use testutils::TestWorkspace;

use crate::common::*;
use crate::driver::DiskEntry;
use crate::driver::walk_disk;
use crate::ensure;
use crate::model::*;
use crate::r#gen;

const NS: i64 = 1_000_000_000;
const MS: i64 = 1_000_000;
/// Logical time origin (2023-11-14T22:13:20Z, a multiple of 2 s). All forced
/// timestamps lie in the past of the wall clock, so the real time at which jj
/// writes its state file never interferes with the forced ordering.
const BASE_NS: i64 = 1_700_000_000 * NS;

// ---------------------------------------------------------------------------
// Timestamps (forced; what `FileState::mtime` / `TreeState::own_mtime` read)

fn set_mtime_ns(path: &Path, t_ns: i64) {
    let c = CString::new(path.as_os_str().as_bytes()).unwrap();
    // SAFETY: plain FFI call with a valid NUL-terminated path and two timespecs.
    let rc = unsafe {
        let mut times: [libc::timespec; 2] = std::mem::zeroed();
        times[0].tv_nsec = libc::UTIME_OMIT;
        times[1].tv_sec = t_ns.div_euclid(NS) as libc::time_t;
        times[1].tv_nsec = t_ns.rem_euclid(NS) as _;
        libc::utimensat(
            libc::AT_FDCWD,
            c.as_ptr(),
            times.as_ptr(),
            libc::AT_SYMLINK_NOFOLLOW,
        )
    };
    assert!(
        rc == 0,
        "harness: utimensat({}) failed: {}",
        path.display(),
        std::io::Error::last_os_error()
    );
    assert_eq!(get_mtime_ns(path), t_ns, "harness: forced mtime did not stick on {}", path.display());
}

fn get_mtime_ns(path: &Path) -> i64 {
    let m = std::fs::symlink_metadata(path).expect("harness: stat for mtime");
    m.mtime() * NS + m.mtime_nsec()
}

fn floor_to(t: i64, g: i64) -> i64 {
    t - t.rem_euclid(g)
}

// ---------------------------------------------------------------------------
// Workspace wrapper: every operation reloads the workspace from disk.

struct Ws {
    tw: TestWorkspace,
    root: PathBuf,
    settings: UserSettings,
}

impl Ws {
    fn new() -> Self {
        let settings = testutils::user_settings();
        // The simple (on-disk) backend: the in-memory test backend starts a
        // multi-threaded tokio runtime for every store instance, i.e. for
        // every reload of the workspace.
        let tw = TestWorkspace::init_with_backend_and_settings(TestRepoBackend::Simple, &settings);
        let root = tw.workspace.workspace_root().to_owned();
        Self { tw, root, settings }
    }

    fn load(&self) -> Workspace {
        Workspace::load(
            &self.settings,
            &self.root,
            &self.tw.env.default_backend_factories(),
            &default_working_copy_factories(),
        )
        .expect("harness: Workspace::load")
    }

    fn tree_state_path(&self) -> PathBuf {
        self.root.join(".jj").join("working_copy").join("tree_state")
    }

    /// Fresh load, snapshot, save. `Err` carries jj's snapshot error.
    fn snapshot(&self, options: &SnapshotOptions) -> Result<(MergedTree, SnapshotStats, Workspace), String> {
        let mut ws = self.load();
        let mut locked = ws
            .start_working_copy_mutation()
            .block_on()
            .expect("harness: start_working_copy_mutation");
        let result = locked.locked_wc().snapshot(options).block_on();
        match result {
            Ok((tree, stats)) => {
                locked
                    .finish(self.tw.repo.op_id().clone())
                    .block_on()
                    .expect("harness: finish after snapshot");
                Ok((tree, stats, ws))
            }
            Err(err) => Err(error_chain(&err)),
        }
    }

    fn snapshot_default(&self) -> Result<(MergedTree, SnapshotStats, Workspace), String> {
        self.snapshot(&testutils::empty_snapshot_options())
    }

    /// Fresh load, set sparse patterns, save; returns the stats and the
    /// working-copy tree and patterns as read by yet another fresh load.
    fn set_sparse(&self, patterns: &[String]) -> Result<(CheckoutStats, MergedTree, Vec<String>), String> {
        let mut ws = self.load();
        let mut locked = ws
            .start_working_copy_mutation()
            .block_on()
            .expect("harness: start_working_copy_mutation");
        let pats: Vec<RepoPathBuf> = patterns.iter().map(|p| repo_path_of(p)).collect();
        let result = locked.locked_wc().set_sparse_patterns(pats).block_on();
        let stats = match result {
            Ok(stats) => stats,
            Err(err) => return Err(error_chain(&err)),
        };
        locked
            .finish(self.tw.repo.op_id().clone())
            .block_on()
            .expect("harness: finish after set_sparse_patterns");
        drop(ws);
        let ws = self.load();
        let tree = ws.working_copy().tree().expect("harness: wc tree").clone();
        let persisted: Vec<String> = ws
            .working_copy()
            .sparse_patterns()
            .expect("harness: wc sparse patterns")
            .iter()
            .map(|p| p.as_internal_file_string().to_owned())
            .collect();
        Ok((stats, tree, persisted))
    }
}

fn error_chain(err: &dyn std::error::Error) -> String {
    let mut text = err.to_string();
    let mut source = err.source();
    while let Some(s) = source {
        text.push_str(": ");
        text.push_str(&s.to_string());
        source = s.source();
    }
    text
}

/// Coarse, stable classification of an error text for clause signatures.
fn error_kind(text: &str) -> &'static str {
    if text.contains("Not a directory") {
        "not_a_directory"
    } else if text.contains("No such file") {
        "no_such_file"
    } else {
        "other"
    }
}

fn repo_path_of(p: &str) -> RepoPathBuf {
    if p.is_empty() { RepoPathBuf::root() } else { rp(p) }
}

// ---------------------------------------------------------------------------
// Disk edits (applied to the real workspace directory)

/// Makes `p` creatable: every proper ancestor becomes a directory (a file or
/// symlink in the way is removed: file -> directory swap) and a directory at
/// `p` itself is removed recursively (directory -> file swap).
fn clear_way(root: &Path, p: &str, remove_existing_non_dir: bool) {
    let comps: Vec<&str> = p.split('/').collect();
    let mut cur = root.to_owned();
    for c in &comps[..comps.len() - 1] {
        cur.push(c);
        match std::fs::symlink_metadata(&cur) {
            Ok(m) if m.is_dir() => {}
            Ok(_) => {
                std::fs::remove_file(&cur).unwrap();
                std::fs::create_dir(&cur).unwrap();
            }
            Err(_) => std::fs::create_dir(&cur).unwrap(),
        }
    }
    cur.push(comps.last().unwrap());
    match std::fs::symlink_metadata(&cur) {
        Ok(m) if m.is_dir() => std::fs::remove_dir_all(&cur).unwrap(),
        Ok(m) if remove_existing_non_dir || m.file_type().is_symlink() => {
            std::fs::remove_file(&cur).unwrap();
        }
        _ => {}
    }
}

/// Creates or overwrites (in place, same inode) a regular file.
fn disk_write(root: &Path, p: &str, content: &[u8], exec: bool, mtime: Option<i64>) {
    clear_way(root, p, false);
    let path = root.join(p);
    std::fs::write(&path, content).unwrap();
    std::fs::set_permissions(&path, std::fs::Permissions::from_mode(if exec { 0o755 } else { 0o644 })).unwrap();
    if let Some(t) = mtime {
        set_mtime_ns(&path, t);
    }
}

fn disk_symlink(root: &Path, p: &str, target: &str, mtime: Option<i64>) {
    clear_way(root, p, true);
    let path = root.join(p);
    std::os::unix::fs::symlink(target, &path).unwrap();
    if let Some(t) = mtime {
        set_mtime_ns(&path, t);
    }
}

fn disk_delete(root: &Path, p: &str) -> bool {
    let path = root.join(p);
    match std::fs::symlink_metadata(&path) {
        Ok(m) if !m.is_dir() => {
            std::fs::remove_file(&path).unwrap();
            true
        }
        _ => false,
    }
}

/// chmod only: the mtime is left alone, as the real `chmod` does.
fn disk_chmod(root: &Path, p: &str, exec: bool) -> bool {
    let path = root.join(p);
    match std::fs::symlink_metadata(&path) {
        Ok(m) if m.is_file() => {
            std::fs::set_permissions(&path, std::fs::Permissions::from_mode(if exec { 0o755 } else { 0o644 })).unwrap();
            true
        }
        _ => false,
    }
}

fn disk_to_model(disk: &BTreeMap<String, DiskEntry>) -> TreeModel {
    disk.iter()
        .map(|(p, e)| {
            let entry = match e {
                DiskEntry::File { content, exec } => Entry::File { content: content.clone(), exec: *exec },
                DiskEntry::Symlink(t) => Entry::Symlink(t.clone()),
            };
            (p.clone(), entry)
        })
        .collect()
}

fn is_dir_prefix(dir: &str, path: &str) -> bool {
    path.len() > dir.len() && path.starts_with(dir) && path.as_bytes()[dir.len()] == b'/'
}

fn entry_size(e: &Entry) -> u64 {
    match e {
        Entry::File { content, .. } => content.len() as u64,
        Entry::Symlink(t) => t.len() as u64,
    }
}

fn entry_short(e: Option<&Entry>) -> String {
    match e {
        None => "absent".into(),
        Some(Entry::File { content, exec }) => {
            format!("file{}({})", if *exec { "+x" } else { "" }, r#gen::show(content))
        }
        Some(Entry::Symlink(t)) => format!("symlink({t})"),
    }
}

// ---------------------------------------------------------------------------
// Reference .gitignore matcher for the restricted pattern forms we generate:
//   name     basename match at any depth below the file's directory (file or dir)
//   dir/     same, directories only
//   *.ext    basename suffix match (file or dir)
//   /name    match only directly inside the .gitignore's directory
//   !pat     negation of any of the above; the last matching line of the
//            deepest .gitignore with a matching line decides
// A path below an ignored directory is ignored (no re-inclusion), and
// .gitignore files inside ignored directories are never consulted.

#[derive(Clone, Debug)]
struct Pat {
    neg: bool,
    dir_only: bool,
    anchored: bool,
    body: String,
}

fn parse_ignore(text: &[u8]) -> Vec<Pat> {
    let text = String::from_utf8_lossy(text);
    let mut out = vec![];
    for line in text.split('\n') {
        if line.is_empty() || line.starts_with('#') {
            continue;
        }
        let mut s = line;
        let neg = s.starts_with('!');
        if neg {
            s = &s[1..];
        }
        let dir_only = s.ends_with('/');
        if dir_only {
            s = &s[..s.len() - 1];
        }
        let anchored = s.starts_with('/');
        if anchored {
            s = &s[1..];
        }
        assert!(
            !s.is_empty()
                && !s.contains('/')
                && !s[1..].contains('*')
                && !s.contains(['?', '[', '\\', ' ', '\r', '!']),
            "harness: ignore line {line:?} is outside the restricted forms"
        );
        out.push(Pat { neg, dir_only, anchored, body: s.to_owned() });
    }
    out
}

fn pat_matches(p: &Pat, rel: &str, is_dir: bool) -> bool {
    if p.dir_only && !is_dir {
        return false;
    }
    let subject = if p.anchored {
        if rel.contains('/') {
            return false;
        }
        rel
    } else {
        rel.rsplit('/').next().unwrap()
    };
    match p.body.strip_prefix('*') {
        Some(suffix) => subject.ends_with(suffix),
        None => subject == p.body,
    }
}

struct IgnoreRef<'a> {
    disk: &'a BTreeMap<String, DiskEntry>,
    base: Vec<Pat>,
}

impl IgnoreRef<'_> {
    /// Is the directory or file at `path` itself matched (ancestors not considered)?
    fn entity_ignored(&self, path: &str, is_dir: bool) -> bool {
        let comps: Vec<&str> = path.split('/').collect();
        for k in (0..comps.len()).rev() {
            let gi = if k == 0 {
                ".gitignore".to_owned()
            } else {
                format!("{}/.gitignore", comps[..k].join("/"))
            };
            if let Some(DiskEntry::File { content, .. }) = self.disk.get(&gi) {
                let rel = comps[k..].join("/");
                for pat in parse_ignore(content).iter().rev() {
                    if pat_matches(pat, &rel, is_dir) {
                        return !pat.neg;
                    }
                }
            }
        }
        for pat in self.base.iter().rev() {
            if pat_matches(pat, path, is_dir) {
                return !pat.neg;
            }
        }
        false
    }

    /// (ignored, because of an ignored ancestor directory)
    fn path_ignored(&self, path: &str) -> (bool, bool) {
        let comps: Vec<&str> = path.split('/').collect();
        for k in 1..comps.len() {
            if self.entity_ignored(&comps[..k].join("/"), true) {
                return (true, true);
            }
        }
        (self.entity_ignored(path, false), false)
    }
}

fn prefix_matches(prefixes: &[String], path: &str) -> bool {
    prefixes
        .iter()
        .any(|q| q.is_empty() || q == path || is_dir_prefix(q, path))
}

// ---------------------------------------------------------------------------
// Tree comparison shared by C23 and C27

/// Compares the snapshot tree with the expected one; `prev` is the previous
/// snapshot tree and `disk` the walker's view, used only to pick a specific
/// clause name.
fn compare_trees(
    prefix: &str,
    expected: &TreeModel,
    actual: &TreeModel,
    prev: &TreeModel,
    disk: &TreeModel,
) -> Check {
    let paths: BTreeSet<&String> = expected.keys().chain(actual.keys()).collect();
    for p in paths {
        let e = expected.get(p);
        let a = actual.get(p);
        if e == a {
            continue;
        }
        let detail = format!(
            "at {:?}: expected {}, snapshot tree has {}, previous snapshot had {}, disk has {}",
            p,
            entry_short(e),
            entry_short(a),
            entry_short(prev.get(p)),
            entry_short(disk.get(p))
        );
        let clause = match (e, a) {
            (Some(_), None) if prev.contains_key(p) => "tracked_path_on_disk_dropped",
            (Some(_), None) => "new_path_not_recorded",
            (None, Some(_)) if !disk.contains_key(p) => "path_gone_from_disk_still_recorded",
            (None, Some(_)) => "path_recorded_but_should_be_untracked",
            (Some(Entry::File { content: ec, .. }), Some(Entry::File { content: ac, .. })) => {
                if ec != ac && prev.get(p) == a {
                    "content_change_not_recorded"
                } else if ec != ac {
                    "content_mismatch"
                } else if prev.get(p) == a {
                    "exec_bit_change_not_recorded"
                } else {
                    "exec_bit_mismatch"
                }
            }
            (Some(Entry::Symlink(_)), Some(Entry::Symlink(_))) => "symlink_target_mismatch",
            _ => "file_type_mismatch",
        };
        return fail(&format!("{prefix}.{clause}"), detail);
    }
    Ok(())
}

// ===========================================================================
// C23

const PATHS23: &[&str] = &[
    "a", "a/b", "a/b/c", "a/g", "a/x.tmp", "a/build", "a/build/o", "a/build/keep", "d", "d/e",
    "d/e/h", "d/e/y.log", "d/x.tmp", "f", "x.tmp", "y.log", "build", "build/out", "build/keep",
    "build/x.tmp", "k/l", "k/build/o", "k/g",
];
const IGNORE_DIRS23: &[&str] = &["", "", "", "a", "d", "build", "a/b", "k", "d/e"];
const IGNORE_LINES23: &[&str] = &[
    "build", "build/", "*.tmp", "*.log", "/f", "/a", "/build", "/x.tmp", "keep", "!keep", "!*.tmp",
    "!/x.tmp", "!build/", "!build", "e/", "g", "!g", "o", "/b", "b/", "/e/", "l", "/d/", "h", "!h",
    "# comment", "k/", "/k", "!/build/",
];
const SYMLINK_TARGETS: &[&str] = &["a", "f", "../x", "nowhere", "d/e", "build"];

#[derive(Clone, Debug, Hash, PartialEq, Eq)]
enum Op23 {
    Write { path: String, content: Vec<u8>, exec: bool, mtime: i64 },
    /// In-place rewrite with different bytes of the same length.
    SameSize { path: String, content: Vec<u8>, mtime: i64 },
    Chmod { path: String, exec: bool },
    Symlink { path: String, target: String, mtime: i64 },
    Delete { path: String },
    /// Snapshot; afterwards the state file's mtime is forced to `save`.
    Snapshot { save: i64 },
}

#[derive(Clone, Debug, Hash, PartialEq, Eq)]
struct Cfg23 {
    /// `None`: everything is auto-tracked; otherwise these path prefixes.
    auto_track: Option<Vec<String>>,
    max_new_file_size: u64,
    base_ignores: Option<String>,
}

#[derive(Clone, Debug, Hash, PartialEq, Eq)]
struct Case23 {
    cfg: Cfg23,
    script: Vec<Op23>,
}

fn op23_json(op: &Op23) -> Value {
    let t = |ns: &i64| format!("base+{}us", (ns - BASE_NS) / 1000);
    match op {
        Op23::Write { path, content, exec, mtime } => {
            json!({"write": path, "content": r#gen::show(content), "exec": exec, "mtime": t(mtime)})
        }
        Op23::SameSize { path, content, mtime } => {
            json!({"rewrite_same_size": path, "content": r#gen::show(content), "mtime": t(mtime)})
        }
        Op23::Chmod { path, exec } => json!({"chmod": path, "exec": exec}),
        Op23::Symlink { path, target, mtime } => json!({"symlink": path, "target": target, "mtime": t(mtime)}),
        Op23::Delete { path } => json!({"delete": path}),
        Op23::Snapshot { save } => json!({"snapshot": true, "state_file_mtime_after": t(save)}),
    }
}

fn case23_json(case: &Case23) -> Value {
    json!({
        "auto_track_prefixes": case.cfg.auto_track,
        "max_new_file_size": if case.cfg.max_new_file_size == u64::MAX { json!("unlimited") } else { json!(case.cfg.max_new_file_size) },
        "base_ignores": case.cfg.base_ignores,
        "script": case.script.iter().map(op23_json).collect::<Vec<_>>(),
    })
}

fn gen_small_content(rng: &mut Rng) -> Vec<u8> {
    let len = match rng.below(10) {
        0 => 0,
        1 => *rng.pick(&[24usize, 25, 31]),
        _ => rng.range(1, 7),
    };
    (0..len).map(|_| *rng.pick(b"abc\n")).collect()
}

fn same_size_variant(rng: &mut Rng, content: &[u8]) -> Vec<u8> {
    let mut out = content.to_vec();
    let i = rng.below(out.len());
    let old = out[i];
    let choices: Vec<u8> = b"abcd\n".iter().copied().filter(|b| *b != old).collect();
    out[i] = *rng.pick(&choices);
    out
}

fn gen_ignore_text(rng: &mut Rng) -> Vec<u8> {
    let n = rng.range(1, 3);
    let lines: Vec<&str> = (0..n).map(|_| *rng.pick(IGNORE_LINES23)).collect();
    let mut text = lines.join("\n");
    if !rng.chance(1, 6) {
        text.push('\n');
    }
    text.into_bytes()
}

fn apply_model23(model: &mut TreeModel, op: &Op23) {
    match op {
        Op23::Write { path, content, exec, .. } => {
            tree_insert(model, path, Entry::File { content: content.clone(), exec: *exec });
        }
        Op23::SameSize { path, content, .. } => {
            let Some(Entry::File { exec, .. }) = model.get(path).cloned() else {
                panic!("harness: same-size rewrite of a non-file {path}");
            };
            model.insert(path.clone(), Entry::File { content: content.clone(), exec });
        }
        Op23::Chmod { path, exec } => {
            let Some(Entry::File { content, .. }) = model.get(path).cloned() else {
                panic!("harness: chmod of a non-file {path}");
            };
            model.insert(path.clone(), Entry::File { content, exec: *exec });
        }
        Op23::Symlink { path, target, .. } => tree_insert(model, path, Entry::Symlink(target.clone())),
        Op23::Delete { path } => {
            model.remove(path);
        }
        Op23::Snapshot { .. } => {}
    }
}

fn gen_case23(rng: &mut Rng) -> Case23 {
    let cfg = Cfg23 {
        auto_track: match rng.below(4) {
            0 => Some(vec!["a".to_owned(), "build".to_owned(), "f".to_owned(), "x.tmp".to_owned()]),
            _ => None,
        },
        max_new_file_size: if rng.chance(1, 3) { 24 } else { u64::MAX },
        base_ignores: match rng.below(5) {
            0 => Some("*.log\n".to_owned()),
            1 => Some("keep\n!/build/\n".to_owned()),
            _ => None,
        },
    };
    let mut model = TreeModel::new();
    let mut script = vec![];
    let mut clock = BASE_NS;
    let tick = |rng: &mut Rng, clock: &mut i64| {
        *clock += *rng.pick(&[0i64, 0, 0, 400_000, MS, 7 * MS, NS]);
    };
    let n_snap = rng.range(3, 6);
    for s in 0..n_snap {
        let n_edits = if s == 0 { rng.range(3, 9) } else { rng.range(1, 5) };
        for _ in 0..n_edits {
            tick(rng, &mut clock);
            let files: Vec<String> = model
                .iter()
                .filter(|(p, e)| matches!(e, Entry::File { .. }) && !p.ends_with(".gitignore"))
                .map(|(p, _)| p.clone())
                .collect();
            let existing: Vec<String> = model.keys().filter(|p| !p.ends_with(".gitignore")).cloned().collect();
            let op = match rng.weighted(&[28, 22, 8, 8, 12, 14, 12]) {
                1 if files.iter().any(|p| entry_size(&model[p]) > 0) => {
                    let candidates: Vec<&String> = files.iter().filter(|p| entry_size(&model[*p]) > 0).collect();
                    let path = (*rng.pick(&candidates)).clone();
                    let Entry::File { content, .. } = &model[&path] else { unreachable!() };
                    Op23::SameSize { content: same_size_variant(rng, content), path, mtime: clock }
                }
                2 if !files.is_empty() => {
                    let path = rng.pick(&files).clone();
                    let Entry::File { exec, .. } = &model[&path] else { unreachable!() };
                    Op23::Chmod { exec: !exec, path }
                }
                3 => Op23::Symlink {
                    path: (*rng.pick(PATHS23)).to_owned(),
                    target: (*rng.pick(SYMLINK_TARGETS)).to_owned(),
                    mtime: clock,
                },
                4 if !model.is_empty() => {
                    // (.gitignore files can be deleted too)
                    let all: Vec<&String> = model.keys().collect();
                    Op23::Delete { path: (*rng.pick(&all)).clone() }
                }
                5 => {
                    let dir = *rng.pick(IGNORE_DIRS23);
                    let path = if dir.is_empty() { ".gitignore".to_owned() } else { format!("{dir}/.gitignore") };
                    Op23::Write { path, content: gen_ignore_text(rng), exec: false, mtime: clock }
                }
                6 if !existing.is_empty() => {
                    // file <-> directory swap
                    let path = rng.pick(&existing).clone();
                    let new_path = match path.rsplit_once('/') {
                        Some((parent, _)) if rng.bool() => parent.to_owned(),
                        _ => format!("{path}/{}", rng.pick(&["b", "o", "x.tmp", "keep"])),
                    };
                    Op23::Write { path: new_path, content: gen_small_content(rng), exec: rng.chance(1, 5), mtime: clock }
                }
                _ => Op23::Write {
                    path: (*rng.pick(PATHS23)).to_owned(),
                    content: gen_small_content(rng),
                    exec: rng.chance(1, 5),
                    mtime: clock,
                },
            };
            apply_model23(&mut model, &op);
            script.push(op);
        }
        tick(rng, &mut clock);
        script.push(Op23::Snapshot { save: clock });
    }
    Case23 { cfg, script }
}

/// Directed case (always case 0): a tracked file below a directory that
/// becomes ignored while the file's parent directory is replaced by a file.
fn directed_case23() -> Case23 {
    let t = |k: i64| BASE_NS + k * NS;
    Case23 {
        cfg: Cfg23 { auto_track: None, max_new_file_size: u64::MAX, base_ignores: None },
        script: vec![
            Op23::Write { path: "k/build/o/x.tmp".into(), content: b"x\n".to_vec(), exec: false, mtime: t(1) },
            Op23::Snapshot { save: t(2) },
            Op23::Write { path: "k/build/o".into(), content: b"y\n".to_vec(), exec: false, mtime: t(3) },
            Op23::Write { path: "k/.gitignore".into(), content: b"build/\n".to_vec(), exec: false, mtime: t(4) },
            Op23::Snapshot { save: t(5) },
            Op23::Write { path: "f".into(), content: b"z\n".to_vec(), exec: false, mtime: t(6) },
            Op23::Snapshot { save: t(7) },
        ],
    }
}

#[derive(Default)]
struct Seen23 {
    snapshots_with_change: u64,
    feats: BTreeMap<&'static str, u64>,
}

impl Seen23 {
    fn hit(&mut self, key: &'static str) {
        *self.feats.entry(key).or_insert(0) += 1;
    }
}

fn run_script23(case: &Case23, seen: &mut Seen23) -> Check {
    let ws = Ws::new();
    let root = ws.root.clone();
    let start_matcher: Box<dyn Matcher> = match &case.cfg.auto_track {
        None => Box::new(EverythingMatcher),
        Some(prefixes) => Box::new(PrefixMatcher::new(prefixes.iter().map(|p| rp(p)))),
    };
    let base_ignores = match &case.cfg.base_ignores {
        None => GitIgnoreFile::empty(),
        Some(text) => GitIgnoreFile::empty()
            .chain(RepoPath::root(), Path::new("base-ignores"), text.as_bytes())
            .expect("harness: base ignores"),
    };
    let options = SnapshotOptions {
        base_ignores,
        progress: None,
        start_tracking_matcher: start_matcher.as_ref(),
        force_tracking_matcher: &NothingMatcher,
        max_new_file_size: case.cfg.max_new_file_size,
    };
    let base_pats = case.cfg.base_ignores.as_ref().map_or(vec![], |t| parse_ignore(t.as_bytes()));

    let mut model = TreeModel::new();
    let mut prev_tree = TreeModel::new();
    // Evidence bookkeeping only (which timing situation an edit was in):
    // ms-truncated mtime last forced per path, the value jj recorded at the
    // last snapshot, and the state file's forced mtime.
    let mut written_ms: BTreeMap<String, i64> = BTreeMap::new();
    let mut recorded_ms: BTreeMap<String, i64> = BTreeMap::new();
    let mut last_save_ms: Option<i64> = None;
    let mut pending: Vec<&'static str> = vec![];
    for (step, op) in case.script.iter().enumerate() {
        match op {
            Op23::Write { path, content, exec, mtime } => {
                if model.keys().any(|q| is_dir_prefix(path, q)) {
                    pending.push("edit_directory_replaced_by_file");
                }
                if model.keys().any(|q| is_dir_prefix(q, path)) {
                    pending.push("edit_file_replaced_by_directory");
                }
                disk_write(&root, path, content, *exec, Some(*mtime));
                written_ms.insert(path.clone(), mtime.div_euclid(MS));
            }
            Op23::SameSize { path, content, mtime } => {
                disk_write(&root, path, content, matches!(model.get(path), Some(Entry::File { exec: true, .. })), Some(*mtime));
                let ms = mtime.div_euclid(MS);
                if prev_tree.contains_key(path) {
                    if recorded_ms.get(path) == Some(&ms) && last_save_ms == Some(ms) {
                        pending.push("edit_same_size_same_mtime_as_recorded_and_state_file");
                    } else if recorded_ms.get(path) != Some(&ms) && last_save_ms.is_some_and(|s| recorded_ms.get(path).is_some_and(|r| *r < s)) {
                        pending.push("edit_same_size_newer_mtime_old_state_clean_candidate");
                    } else {
                        pending.push("edit_same_size_other_timing");
                    }
                }
                written_ms.insert(path.clone(), ms);
            }
            Op23::Chmod { path, exec } => {
                assert!(disk_chmod(&root, path, *exec), "harness: chmod target missing");
                if prev_tree.contains_key(path)
                    && last_save_ms.is_some_and(|s| recorded_ms.get(path).is_some_and(|r| *r < s))
                {
                    pending.push("edit_chmod_only_with_older_mtime_than_state_file");
                }
            }
            Op23::Symlink { path, target, mtime } => {
                disk_symlink(&root, path, target, Some(*mtime));
                written_ms.insert(path.clone(), mtime.div_euclid(MS));
            }
            Op23::Delete { path } => {
                assert!(disk_delete(&root, path), "harness: delete target missing");
            }
            Op23::Snapshot { save } => {
                let disk = walk_disk(&root);
                let disk_model = disk_to_model(&disk);
                assert!(
                    disk_model == model,
                    "harness: disk walker and disk model disagree at step {step}: walker {:?} model {:?}",
                    disk_model.keys().collect::<Vec<_>>(),
                    model.keys().collect::<Vec<_>>()
                );
                // Expected tree, from the walker, the previous snapshot and the reference matchers.
                let ign = IgnoreRef { disk: &disk, base: base_pats.clone() };
                let mut expected = TreeModel::new();
                let mut feats: Vec<&'static str> = vec![];
                for (p, e) in &disk_model {
                    let tracked = prev_tree.contains_key(p);
                    let (ignored, by_dir) = ign.path_ignored(p);
                    let auto = case.cfg.auto_track.as_ref().is_none_or(|pre| prefix_matches(pre, p));
                    let small = entry_size(e) <= case.cfg.max_new_file_size;
                    if tracked || (!ignored && auto && small) {
                        expected.insert(p.clone(), e.clone());
                    }
                    match (tracked, ignored, by_dir) {
                        (true, true, true) => feats.push("tracked_file_inside_ignored_directory_kept"),
                        (true, true, false) => feats.push("tracked_file_matching_ignore_pattern_kept"),
                        (false, true, true) => feats.push("untracked_file_inside_ignored_directory_skipped"),
                        (false, true, false) => feats.push("untracked_ignored_file_skipped"),
                        (false, false, _) if !auto => feats.push("new_file_not_auto_tracked_skipped"),
                        (false, false, _) if !small => feats.push("new_file_over_size_limit_skipped"),
                        (false, false, _) => feats.push("new_file_tracked"),
                        _ => {}
                    }
                    if tracked && entry_size(e) > case.cfg.max_new_file_size {
                        feats.push("tracked_file_over_size_limit_kept");
                    }
                    if let (Some(old), true) = (prev_tree.get(p), tracked) {
                        match (old, e) {
                            (Entry::File { content: c0, exec: x0 }, Entry::File { content: c1, exec: x1 }) => {
                                if c0 != c1 && c0.len() == c1.len() {
                                    feats.push("same_size_content_change");
                                } else if c0 != c1 {
                                    feats.push("content_change");
                                }
                                if x0 != x1 {
                                    feats.push(if c0 == c1 { "exec_bit_only_change" } else { "exec_bit_change" });
                                }
                            }
                            (Entry::Symlink(t0), Entry::Symlink(t1)) if t0 != t1 => feats.push("symlink_target_change"),
                            (Entry::File { .. }, Entry::Symlink(_)) => feats.push("file_became_symlink"),
                            (Entry::Symlink(_), Entry::File { .. }) => feats.push("symlink_became_file"),
                            _ => {}
                        }
                    }
                    if matches!(e, Entry::Symlink(_)) && expected.contains_key(p) {
                        feats.push(if root.join(p).exists() {
                            "valid_symlink_recorded"
                        } else {
                            "dangling_symlink_recorded"
                        });
                    }
                }
                for p in prev_tree.keys() {
                    if !disk_model.contains_key(p) {
                        if disk_model.keys().any(|q| is_dir_prefix(p, q)) {
                            feats.push("tracked_file_became_directory");
                        } else if disk_model.keys().any(|q| is_dir_prefix(q, p)) {
                            feats.push("tracked_directory_became_file");
                        } else {
                            feats.push("tracked_file_deleted");
                        }
                    }
                }
                if disk.keys().any(|p| p.contains('/') && p.ends_with("/.gitignore")) {
                    feats.push("nested_gitignore_present");
                }
                if disk.iter().any(|(p, e)| {
                    p.ends_with(".gitignore")
                        && matches!(e, DiskEntry::File { content, .. } if parse_ignore(content).iter().any(|x| x.neg))
                }) {
                    feats.push("negation_pattern_present");
                }

                let (tree, stats, _loaded) = match ws.snapshot(&options) {
                    Ok(v) => v,
                    Err(err) => {
                        // The statement covers these disk states ("this also holds when a file is
                        // replaced by a directory or the reverse", ignored directories with tracked
                        // files): a snapshot that fails records nothing.
                        return fail(
                            &format!("snapshot.failed_with_error.{}", error_kind(&err)),
                            format!("snapshot at step {step} failed: {err}"),
                        );
                    }
                };
                let actual = read_resolved_tree(&tree);
                compare_trees("snapshot", &expected, &actual, &prev_tree, &disk_model)?;
                // Reported untracked paths must really be untracked (sanity of the stats we count).
                for (p, reason) in &stats.untracked_paths {
                    let p = p.as_internal_file_string();
                    ensure!(
                        !actual.contains_key(p),
                        "snapshot.reported_untracked_path_is_in_tree",
                        "path {:?} reported untracked ({:?}) but is in the snapshot tree",
                        p,
                        reason
                    );
                    match reason {
                        UntrackedReason::FileTooLarge { .. } => feats.push("stats_reported_too_large"),
                        UntrackedReason::FileNotAutoTracked => feats.push("stats_reported_not_auto_tracked"),
                    }
                }
                if actual != prev_tree {
                    seen.snapshots_with_change += 1;
                }
                for f in feats.drain(..).chain(pending.drain(..)) {
                    seen.hit(f);
                }
                seen.hit("snapshots_checked");
                // The state save "happened" at logical time `save`.
                let state = ws.tree_state_path();
                set_mtime_ns(&state, *save);
                last_save_ms = Some(save.div_euclid(MS));
                recorded_ms = actual
                    .keys()
                    .filter_map(|p| written_ms.get(p).map(|ms| (p.clone(), *ms)))
                    .collect();
                prev_tree = actual;
            }
        }
        apply_model23(&mut model, op);
    }
    Ok(())
}

pub fn run_c23(ctx: &Ctx) -> i32 {
    ctx.set_rule(
        "Fresh workspace per case; a seeded edit script (create/overwrite, in-place same-size rewrite, chmod, \
         symlink incl. dangling, delete, file<->directory swaps, root and nested .gitignore files in the forms \
         name, dir/, *.ext, /name, !negation) over a 23-path universe is applied to the real directory and to an \
         independent disk model, with 3-6 interleaved snapshots (workspace reloaded from disk each time). All \
         mtimes are forced from a logical clock (steps 0, 0.4 ms, 1 ms, 7 ms, 1 s) and the state file's mtime is \
         forced to the clock value of the snapshot, so equal and distinct timestamps occur deliberately. Options: \
         auto-track everything or a prefix set, max-new-file-size unlimited or 24, optional base ignores. \
         Non-trivial: at least two snapshots of the case produced a tree different from the previous one (and \
         every snapshot was compared). Distinct: by (options, script).",
    );
    ctx.assume("library API only (TestWorkspace + Workspace::load per snapshot); the hooked CLI workload of DESIGN is not part of this engine");
    ctx.assume(".gitignore is always a regular file; pattern lines restricted to name, dir/, *.ext, /name, /dir/, and their negations");
    ctx.assume("same-size rewrites bump the mtime monotonically in logical time (>= the forced state-file mtime); an edit that keeps an older mtime is outside the property");
    let n = ctx.tier().pick(4_000, 150_000);
    par_cases(ctx, n, threads(), |i, cs, rng| {
        let case = if i == 0 { directed_case23() } else { gen_case23(rng) };
        let mut seen = Seen23::default();
        run_case(ctx, i, cs, || case23_json(&case), || run_script23(&case, &mut seen));
        ctx.case(stable_hash(&case), seen.snapshots_with_change >= 2);
        for (k, v) in &seen.feats {
            ctx.count_n(k, *v);
        }
        if seen.snapshots_with_change >= 2 {
            ctx.sample(|| case23_json(&case));
        }
    });
    ctx.finish(ctx.tier().pick(600, 30_000))
}

// ===========================================================================
// C26

#[derive(Clone, Debug, Hash, PartialEq, Eq)]
enum Case26 {
    Forced {
        g_name: &'static str,
        g_ns: i64,
        unit_ns: i64,
        t_write: i64,
        t_save: i64,
        t_edit: i64,
        /// false: the file is new at the recording snapshot; true: it was
        /// already tracked and the recording snapshot sees a modification.
        previously_tracked: bool,
    },
    FreeRunning { rounds: u32 },
}

fn case26_json(case: &Case26) -> Value {
    match case {
        Case26::Forced { g_name, g_ns, unit_ns, t_write, t_save, t_edit, previously_tracked } => json!({
            "granularity": g_name, "granularity_ns": g_ns, "unit_ns": unit_ns,
            "t_write": t_write, "t_save": t_save, "t_edit": t_edit,
            "file_mtime_recorded_ns_after_base": floor_to(BASE_NS + t_write * unit_ns, *g_ns) - BASE_NS,
            "state_file_mtime_ns_after_base": floor_to(BASE_NS + t_save * unit_ns, *g_ns) - BASE_NS,
            "file_mtime_after_edit_ns_after_base": floor_to(BASE_NS + t_edit * unit_ns, *g_ns) - BASE_NS,
            "previously_tracked": previously_tracked,
        }),
        Case26::FreeRunning { rounds } => json!({"free_running_rounds": rounds}),
    }
}

/// (name, granularity, unit of the integer offsets). The last entry has no
/// flooring by the file system; jj itself truncates to milliseconds.
const GRANULARITIES26: &[(&str, i64, i64)] = &[
    ("1ms", MS, MS / 2),
    ("10ms", 10 * MS, 5 * MS),
    ("1s", NS, NS / 2),
    ("2s", 2 * NS, NS),
    ("1ns(sub-ms)", 1, 250_000),
];

fn cases26(window: i64, free_running: u64, rounds: u32) -> Vec<Case26> {
    let mut out = vec![];
    for &(g_name, g_ns, unit_ns) in GRANULARITIES26 {
        for t_write in 0..window {
            // t_save < t_write is included: the state file may look OLDER than
            // the recorded file mtime (clock stepped back, timestamps set by a
            // tool, or a state that is snapshotted again without a reload).
            for t_save in 0..window {
                for t_edit in t_write.max(t_save)..window {
                    for previously_tracked in [false, true] {
                        out.push(Case26::Forced { g_name, g_ns, unit_ns, t_write, t_save, t_edit, previously_tracked });
                    }
                }
            }
        }
    }
    for _ in 0..free_running {
        out.push(Case26::FreeRunning { rounds });
    }
    out
}

fn recorded_mtime_ms(ws: &Workspace, path: &str) -> Option<i64> {
    let wc: &LocalWorkingCopy = ws.working_copy().downcast_ref()?;
    let states = wc.file_states().ok()?;
    states.get(&rp(path)).map(|s| s.mtime.0)
}

fn file_in_tree(tree: &MergedTree, path: &str) -> Option<Entry> {
    read_resolved_tree(tree).get(path).cloned()
}

fn run_case26(ctx: &Ctx, case: &Case26, rng: &mut Rng, nontrivial: &mut bool) -> Check {
    let ws = Ws::new();
    let root = ws.root.clone();
    let state = ws.tree_state_path();
    let path = "dir/file";
    match case {
        Case26::Forced { g_name, g_ns, unit_ns, t_write, t_save, t_edit, previously_tracked } => {
            let m_write = floor_to(BASE_NS + t_write * unit_ns, *g_ns);
            let m_save = floor_to(BASE_NS + t_save * unit_ns, *g_ns);
            let m_edit = floor_to(BASE_NS + t_edit * unit_ns, *g_ns);
            let len = rng.range(1, 12);
            let content_a: Vec<u8> = (0..len).map(|_| *rng.pick(b"abc\n")).collect();
            let content_b = same_size_variant(rng, &content_a);
            if *previously_tracked {
                // An older version (different size), recorded long before the window.
                disk_write(&root, path, b"an older, longer version of the file\n", false, Some(BASE_NS - 100 * NS));
                let (tree, _, _) = ws.snapshot_default().expect("harness: setup snapshot");
                assert!(file_in_tree(&tree, path).is_some(), "harness: setup snapshot did not track the file");
                set_mtime_ns(&state, BASE_NS - 50 * NS);
            }
            // jj records the file with mtime floor_g(t_write).
            disk_write(&root, path, &content_a, false, Some(m_write));
            let (tree, _, loaded) = ws.snapshot_default().expect("harness: recording snapshot");
            assert!(
                file_in_tree(&tree, path) == Some(Entry::File { content: content_a.clone(), exec: false }),
                "harness: recording snapshot did not record the written content"
            );
            assert!(
                recorded_mtime_ms(&loaded, path) == Some(m_write.div_euclid(MS)),
                "harness: jj recorded mtime {:?} ms, forced {} ms",
                recorded_mtime_ms(&loaded, path),
                m_write.div_euclid(MS)
            );
            drop(loaded);
            // The state save happened at floor_g(t_save).
            assert!(state.is_file(), "harness: tree_state file missing");
            set_mtime_ns(&state, m_save);
            // The edit: same size, in place, at floor_g(t_edit).
            disk_write(&root, path, &content_b, false, Some(m_edit));
            assert!(get_mtime_ns(&state) == m_save, "harness: state file mtime changed by the edit");
            let (tree, _, _) = match ws.snapshot_default() {
                Ok(v) => v,
                Err(err) => panic!("harness: snapshot after the edit failed: {err}"),
            };
            let got = file_in_tree(&tree, path);
            *nontrivial = true;
            let pattern = match (m_write.div_euclid(MS) == m_save.div_euclid(MS), m_save.div_euclid(MS) == m_edit.div_euclid(MS)) {
                (true, true) => "pattern_write=save=edit",
                (true, false) => "pattern_write=save<edit",
                (false, true) => "pattern_write<save=edit",
                (false, false) => "pattern_write<save<edit",
            };
            ctx.count(pattern);
            ctx.count(&format!("granularity_{g_name}"));
            ensure!(
                got == Some(Entry::File { content: content_b.clone(), exec: false }),
                "edit_after_state_save_not_detected",
                "granularity {} (unit {} ns), triple (t_write, t_save, t_edit) = ({}, {}, {}), previously_tracked={}: \
                 recorded file mtime base+{} ns, state file mtime base+{} ns, file mtime after same-size edit base+{} ns; \
                 snapshot tree has {} but the disk has {}",
                g_name,
                unit_ns,
                t_write,
                t_save,
                t_edit,
                previously_tracked,
                m_write - BASE_NS,
                m_save - BASE_NS,
                m_edit - BASE_NS,
                entry_short(got.as_ref()),
                r#gen::show(&content_b)
            );
            Ok(())
        }
        Case26::FreeRunning { rounds } => {
            // Secondary workload: real timestamps, edit immediately after the
            // command (snapshot + state save) returned.
            let mut content: Vec<u8> = b"0000000\n".to_vec();
            disk_write(&root, path, &content, false, None);
            ws.snapshot_default().expect("harness: setup snapshot");
            for round in 0..*rounds {
                content = same_size_variant(rng, &content);
                std::fs::write(root.join(path), &content).unwrap();
                let file_ms = get_mtime_ns(&root.join(path)).div_euclid(MS);
                let state_ms = get_mtime_ns(&state).div_euclid(MS);
                if file_ms == state_ms {
                    ctx.count("free_running_edit_in_same_ms_as_state_save");
                }
                let (tree, _, _) = ws.snapshot_default().expect("harness: free-running snapshot");
                let got = file_in_tree(&tree, path);
                ctx.count("free_running_rounds");
                *nontrivial = true;
                ensure!(
                    got == Some(Entry::File { content: content.clone(), exec: false }),
                    "free_running.edit_after_state_save_not_detected",
                    "round {}: file mtime {} ms, state file mtime {} ms: snapshot tree has {} but the disk has {}",
                    round,
                    file_ms,
                    state_ms,
                    entry_short(got.as_ref()),
                    r#gen::show(&content)
                );
            }
            Ok(())
        }
    }
}

pub fn run_c26(ctx: &Ctx) -> i32 {
    let window = ctx.tier().pick(7, 10);
    let free_running = ctx.tier().pick(32, 128);
    let rounds = ctx.tier().pick(75, 200);
    ctx.set_rule(
        "Forced timestamps: for each granularity g (1 ms, 10 ms, 1 s, 2 s, and unfloored sub-ms steps) and every \
         integer triple with t_write <= t_edit and t_save <= t_edit in the window (t_save before, at or after \
         t_write; unit g/2, so every equality/ordering pattern \
         of the floored values occurs), for a new and for a previously tracked file: force the file mtime to \
         floor_g(t_write) and snapshot (the recorded FileState mtime is read back and must equal the forced \
         value), force the tree_state file's mtime to floor_g(t_save), rewrite the file in place with different \
         bytes of the same length and force its mtime to floor_g(t_edit), snapshot from a fresh load; the new \
         content must be in the tree. Plus a free-running secondary workload (real clock, edit right after the \
         save returns). Non-trivial: the forced quantities were verified and the final snapshot was compared. \
         Distinct: by (g, triple, previously_tracked).",
    );
    let cases = cases26(window, free_running, rounds);
    let n_forced = cases.iter().filter(|c| matches!(c, Case26::Forced { .. })).count();
    ctx.set_extra(
        "window",
        json!({
            "offsets": format!("0..{window} (inclusive lower, exclusive upper), all triples with t_write <= t_edit and t_save <= t_edit"),
            "granularities": GRANULARITIES26.iter().map(|(n, g, u)| json!({"name": n, "granularity_ns": g, "unit_ns": u})).collect::<Vec<_>>(),
            "file_variants": ["new at recording snapshot", "previously tracked"],
            "forced_cases": n_forced,
            "base": "1700000000 s since epoch",
        }),
    );
    par_cases(ctx, cases.len() as u64, threads(), |i, cs, rng| {
        let case = &cases[i as usize];
        let mut nontrivial = false;
        run_case(ctx, i, cs, || case26_json(case), || run_case26(ctx, case, rng, &mut nontrivial));
        let hash = match case {
            Case26::Forced { .. } => stable_hash(case),
            Case26::FreeRunning { .. } => stable_hash(&(case, i)),
        };
        ctx.case(hash, nontrivial);
        if matches!(case, Case26::Forced { .. }) {
            ctx.count("forced_cases_run");
            if i % 97 == 0 {
                ctx.sample(|| case26_json(case));
            }
        }
    });
    // Exhaustive only if every enumerated case actually ran.
    let complete = ctx.args.replay.is_none() && ctx.counter("forced_cases_run") == n_forced as u64;
    ctx.set_exhaustive(complete);
    ctx.finish(if ctx.args.replay.is_some() { 0 } else { n_forced as u64 })
}

// ===========================================================================
// C27

const PATTERNS27: &[&str] = &["", "a", "a/b", "a/b/c", "a/g", "d", "d/e", "f", "k", "k/l", "zz"];
const EXTRA_PATHS27: &[&str] = &["zz", "a/new", "k/m", "d/e/new", "top"];

#[derive(Clone, Debug, Hash, PartialEq, Eq)]
enum Op27 {
    Sparse(Vec<String>),
    Write { path: String, content: Vec<u8>, exec: bool },
    Symlink { path: String, target: String },
    Delete { path: String },
    Chmod { path: String },
    Snapshot,
}

#[derive(Clone, Debug, Hash, PartialEq, Eq)]
struct Case27 {
    tree: TreeModel,
    script: Vec<Op27>,
}

fn case27_json(case: &Case27) -> Value {
    let ops: Vec<Value> = case
        .script
        .iter()
        .map(|op| match op {
            Op27::Sparse(p) => json!({"set_sparse_patterns": p}),
            Op27::Write { path, content, exec } => json!({"write": path, "content": r#gen::show(content), "exec": exec}),
            Op27::Symlink { path, target } => json!({"symlink": path, "target": target}),
            Op27::Delete { path } => json!({"delete": path}),
            Op27::Chmod { path } => json!({"chmod_toggle": path}),
            Op27::Snapshot => json!("snapshot"),
        })
        .collect();
    json!({"initial_tree": tree_json(&case.tree), "script": ops})
}

fn gen_patterns27(rng: &mut Rng) -> Vec<String> {
    match rng.below(12) {
        0 => vec![],
        1 | 2 => vec![String::new()],
        _ => {
            let n = rng.range(1, 3);
            (0..n).map(|_| (*rng.pick(PATTERNS27)).to_owned()).collect()
        }
    }
}

fn gen_case27(rng: &mut Rng) -> Case27 {
    let pool = r#gen::line_pool(rng, 4, false);
    let mut tree = gen_tree(rng, &pool, 9);
    if tree.is_empty() {
        tree_insert(&mut tree, "a/b", gen_entry(rng, &pool));
        tree_insert(&mut tree, "f", gen_entry(rng, &pool));
    }
    let mut script = vec![];
    let n = rng.range(6, 14);
    let mut n_sparse = 0;
    for k in 0..n {
        let path = |rng: &mut Rng| -> String {
            if rng.chance(1, 5) { (*rng.pick(EXTRA_PATHS27)).to_owned() } else { (*rng.pick(PATHS)).to_owned() }
        };
        let force_sparse = (k == 0) || (k + 2 >= n && n_sparse < 2);
        let op = match if force_sparse { 0 } else { rng.weighted(&[30, 28, 5, 12, 5, 20]) } {
            0 => {
                n_sparse += 1;
                Op27::Sparse(gen_patterns27(rng))
            }
            1 => Op27::Write { path: path(rng), content: gen_file_content(rng, &pool), exec: rng.chance(1, 5) },
            2 => Op27::Symlink { path: path(rng), target: (*rng.pick(SYMLINK_TARGETS)).to_owned() },
            3 => Op27::Delete { path: path(rng) },
            4 => Op27::Chmod { path: path(rng) },
            _ => Op27::Snapshot,
        };
        script.push(op);
    }
    Case27 { tree, script }
}

#[derive(Default)]
struct Seen27 {
    entering: u64,
    leaving: u64,
    skipped: u64,
    snapshots_with_hidden_paths: u64,
    feats: BTreeMap<&'static str, u64>,
}

impl Seen27 {
    fn hit(&mut self, key: &'static str) {
        *self.feats.entry(key).or_insert(0) += 1;
    }
}

/// Snapshot under the current sparse patterns and compare.
fn snapshot27(ws: &Ws, tree: &mut TreeModel, patterns: &[String], seen: &mut Seen27) -> Check {
    let root = &ws.root;
    // The property does not say what happens when a new file inside the
    // patterns needs a directory where the tree has a (hidden) file outside
    // the patterns: such leftovers are removed before snapshotting.
    let hidden: Vec<String> = tree.keys().filter(|q| !prefix_matches(patterns, q)).cloned().collect();
    for p in walk_disk(root).keys() {
        if prefix_matches(patterns, p) && hidden.iter().any(|q| is_dir_prefix(q, p)) {
            disk_delete(root, p);
            seen.hit("harness_removed_file_below_hidden_tracked_file");
        }
    }
    let disk = disk_to_model(&walk_disk(root));
    let mut expected: TreeModel = tree
        .iter()
        .filter(|(q, _)| !prefix_matches(patterns, q))
        .map(|(q, e)| (q.clone(), e.clone()))
        .collect();
    let n_hidden = expected.len();
    for (p, e) in &disk {
        if prefix_matches(patterns, p) {
            expected.insert(p.clone(), e.clone());
        } else {
            seen.hit("untracked_leftover_outside_patterns_at_snapshot");
        }
    }
    let (new_tree, _, _) = match ws.snapshot_default() {
        Ok(v) => v,
        Err(err) => {
            return fail(
                &format!("sparse.snapshot_failed_with_error.{}", error_kind(&err)),
                format!("patterns {patterns:?}: {err}"),
            );
        }
    };
    let actual = read_resolved_tree(&new_tree);
    // First the clause the property spells out.
    for (q, e) in tree.iter().filter(|(q, _)| !prefix_matches(patterns, q)) {
        ensure!(
            actual.get(q) == Some(e),
            "sparse.snapshot_changed_path_outside_patterns",
            "patterns {:?}: path {:?} outside the patterns was {} and is {} after the snapshot",
            patterns,
            q,
            entry_short(Some(e)),
            entry_short(actual.get(q))
        );
    }
    compare_trees("sparse.snapshot", &expected, &actual, tree, &disk)?;
    if n_hidden > 0 {
        seen.snapshots_with_hidden_paths += 1;
        seen.hit("snapshot_with_tracked_paths_outside_patterns");
        if actual != *tree {
            seen.hit("snapshot_with_hidden_paths_recorded_a_change");
        }
    }
    seen.hit("snapshots_checked");
    *tree = actual;
    Ok(())
}

fn run_script27(case: &Case27, seen: &mut Seen27) -> Check {
    let ws = Ws::new();
    let root = ws.root.clone();
    // Check out the initial tree (through a fresh load, like everything else).
    {
        let mut loaded = ws.load();
        let repo = ws.tw.repo.clone();
        let store_tree = write_tree(loaded.repo_loader().store(), &case.tree);
        let commit = testutils::commit_with_tree(loaded.repo_loader().store(), store_tree);
        loaded
            .check_out(repo.op_id().clone(), None, &commit)
            .block_on()
            .expect("harness: initial checkout");
    }
    let mut tree = case.tree.clone();
    let mut patterns: Vec<String> = vec![String::new()];
    assert!(
        disk_to_model(&walk_disk(&root)) == tree,
        "harness: initial checkout does not match the tree model"
    );
    for (step, op) in case.script.iter().enumerate() {
        match op {
            Op27::Write { path, content, exec } => {
                disk_write(&root, path, content, *exec, None);
                seen.hit(if prefix_matches(&patterns, path) { "edit_inside_patterns" } else { "edit_outside_patterns" });
            }
            Op27::Symlink { path, target } => {
                disk_symlink(&root, path, target, None);
                seen.hit(if prefix_matches(&patterns, path) { "edit_inside_patterns" } else { "edit_outside_patterns" });
            }
            Op27::Delete { path } => {
                if disk_delete(&root, path) {
                    seen.hit(if prefix_matches(&patterns, path) { "edit_inside_patterns" } else { "edit_outside_patterns" });
                }
            }
            Op27::Chmod { path } => {
                let exec = std::fs::symlink_metadata(root.join(path)).is_ok_and(|m| m.permissions().mode() & 0o111 != 0);
                if disk_chmod(&root, path, !exec) {
                    seen.hit(if prefix_matches(&patterns, path) { "edit_inside_patterns" } else { "edit_outside_patterns" });
                }
            }
            Op27::Snapshot => snapshot27(&ws, &mut tree, &patterns, seen)?,
            Op27::Sparse(new_patterns) => {
                // Like `jj sparse set`: snapshot first.
                snapshot27(&ws, &mut tree, &patterns, seen)?;
                let disk_before = disk_to_model(&walk_disk(&root));
                let entering: Vec<&String> = tree
                    .keys()
                    .filter(|p| prefix_matches(new_patterns, p) && !prefix_matches(&patterns, p))
                    .collect();
                let leaving: Vec<&String> = tree
                    .keys()
                    .filter(|p| !prefix_matches(new_patterns, p) && prefix_matches(&patterns, p))
                    .collect();
                // An entering file is skipped when something untracked is in its way.
                let obstructed: Vec<&String> = entering
                    .iter()
                    .copied()
                    .filter(|p| {
                        let comps: Vec<&str> = p.split('/').collect();
                        (1..comps.len()).any(|k| {
                            std::fs::symlink_metadata(root.join(comps[..k].join("/"))).is_ok_and(|m| !m.is_dir())
                        }) || std::fs::symlink_metadata(root.join(p)).is_ok()
                    })
                    .collect();
                let mut expected_disk = disk_before.clone();
                for p in &leaving {
                    // Holds by construction: the snapshot just before made tree == disk inside the patterns.
                    assert!(
                        expected_disk.remove(*p).is_some(),
                        "harness: {p:?} is in the tree and inside {patterns:?} but not on disk after a snapshot"
                    );
                }
                for p in &entering {
                    if !obstructed.contains(p) {
                        expected_disk.insert((*p).clone(), tree[*p].clone());
                    }
                }
                let (stats, tree_after, persisted) = match ws.set_sparse(new_patterns) {
                    Ok(v) => v,
                    Err(err) => {
                        return fail(
                            "sparse.set_sparse_patterns_failed_with_error",
                            format!("step {step}: {patterns:?} -> {new_patterns:?}: {err}"),
                        );
                    }
                };
                let ctx_msg = format!(
                    "step {step}: patterns {patterns:?} -> {new_patterns:?}, entering {entering:?}, leaving {leaving:?}, obstructed {obstructed:?}, stats {stats:?}"
                );
                let tree_after_model = read_resolved_tree(&tree_after);
                ensure!(
                    tree_after_model == tree,
                    "sparse.tree_changed_by_set_sparse_patterns",
                    "{}: tree before {:?}, after {:?}",
                    ctx_msg,
                    tree.keys().collect::<Vec<_>>(),
                    tree_after_model.keys().collect::<Vec<_>>()
                );
                ensure!(
                    persisted == *new_patterns,
                    "sparse.patterns_not_persisted",
                    "{}: reloaded patterns {:?}",
                    ctx_msg,
                    persisted
                );
                let disk_after = disk_to_model(&walk_disk(&root));
                for p in &leaving {
                    ensure!(
                        !disk_after.contains_key(*p),
                        "sparse.leaving_file_not_removed",
                        "{}: {:?} still on disk",
                        ctx_msg,
                        p
                    );
                }
                for p in &entering {
                    if !obstructed.contains(p) {
                        ensure!(
                            disk_after.get(*p) == Some(&tree[*p]),
                            "sparse.entering_file_not_written",
                            "{}: {:?} should be {} but the disk has {}",
                            ctx_msg,
                            p,
                            entry_short(tree.get(*p)),
                            entry_short(disk_after.get(*p))
                        );
                    }
                }
                for (p, e) in &disk_before {
                    if !leaving.contains(&p) {
                        ensure!(
                            disk_after.get(p) == Some(e),
                            "sparse.file_not_leaving_was_changed_or_deleted",
                            "{}: {:?} was {} and is {}",
                            ctx_msg,
                            p,
                            entry_short(Some(e)),
                            entry_short(disk_after.get(p))
                        );
                    }
                }
                ensure!(
                    disk_after == expected_disk,
                    "sparse.disk_has_unexpected_files",
                    "{}: disk after {:?}, expected {:?}",
                    ctx_msg,
                    disk_after.keys().collect::<Vec<_>>(),
                    expected_disk.keys().collect::<Vec<_>>()
                );
                // Stats. `added_files` counts intended additions in this code base (skipped ones
                // included); the property only says "exactly the entering files", so both
                // conventions are accepted for files that could not be written.
                let n_enter = entering.len() as u32;
                let n_obst = obstructed.len() as u32;
                ensure!(
                    stats.added_files == n_enter || stats.added_files == n_enter - n_obst,
                    "sparse.stats_added_files",
                    "{}",
                    ctx_msg
                );
                ensure!(stats.skipped_files == n_obst, "sparse.stats_skipped_files", "{}", ctx_msg);
                ensure!(stats.removed_files == leaving.len() as u32, "sparse.stats_removed_files", "{}", ctx_msg);
                ensure!(stats.updated_files == 0, "sparse.stats_updated_files", "{}", ctx_msg);
                seen.entering += entering.len() as u64;
                seen.leaving += leaving.len() as u64;
                seen.skipped += obstructed.len() as u64;
                seen.hit("set_sparse_patterns_checked");
                if new_patterns.is_empty() {
                    seen.hit("patterns_empty");
                } else if new_patterns.iter().any(|p| p.is_empty()) {
                    seen.hit("patterns_root");
                }
                if new_patterns.iter().any(|p| new_patterns.iter().any(|q| is_dir_prefix(q, p) || (q.is_empty() && !p.is_empty()))) {
                    seen.hit("patterns_nested_overlapping");
                }
                if !entering.is_empty() && !leaving.is_empty() {
                    seen.hit("update_with_entering_and_leaving");
                }
                if disk_before.keys().any(|p| !prefix_matches(&patterns, p)) {
                    seen.hit("untracked_leftover_present_at_update");
                }
                patterns = new_patterns.clone();
            }
        }
    }
    // Final snapshot so that trailing edits are checked as well.
    snapshot27(&ws, &mut tree, &patterns, seen)
}

pub fn run_c27(ctx: &Ctx) -> i32 {
    ctx.set_rule(
        "Fresh workspace per case with a random tree (9-path universe, files/executables/symlinks, nested \
         directories) checked out; a seeded script of 6-14 steps: set_sparse_patterns with random pattern sets \
         (empty, root, 1-3 prefixes incl. nested/overlapping/non-existent ones), edits inside and outside the \
         patterns (create/overwrite, symlink, delete, chmod, file<->directory swaps, files planted on hidden \
         tracked paths), snapshots; every step on a workspace reloaded from disk; a snapshot precedes each \
         pattern change as `jj sparse set` does. Non-trivial: at least one file entered or left the patterns \
         and at least one snapshot ran while tracked paths were outside the patterns. Distinct: by (tree, script).",
    );
    ctx.assume("a snapshot always precedes set_sparse_patterns (CLI behaviour); un-snapshotted edits to leaving files are outside the property");
    ctx.assume("new files inside the patterns that would need a directory where a hidden tracked file lives are removed by the harness before snapshotting (the property does not define that case)");
    let n = ctx.tier().pick(4_500, 100_000);
    par_cases(ctx, n, threads(), |i, cs, rng| {
        let case = gen_case27(rng);
        let mut seen = Seen27::default();
        run_case(ctx, i, cs, || case27_json(&case), || run_script27(&case, &mut seen));
        let nontrivial = seen.entering + seen.leaving > 0 && seen.snapshots_with_hidden_paths > 0;
        ctx.case(stable_hash(&case), nontrivial);
        ctx.count_n("files_entering_patterns", seen.entering);
        ctx.count_n("files_leaving_patterns", seen.leaving);
        ctx.count_n("entering_files_skipped_untracked_in_the_way", seen.skipped);
        for (k, v) in &seen.feats {
            ctx.count_n(k, *v);
        }
        if nontrivial {
            ctx.sample(|| case27_json(&case));
        }
    });
    ctx.finish(ctx.tier().pick(400, 20_000))
}
