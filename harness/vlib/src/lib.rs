//! Runtime monitors for jj (library-level engines).
#![allow(clippy::too_many_arguments)]

pub mod common;
pub mod r#gen;
pub mod dag;
pub mod driver;
pub mod model;
pub mod p_checkout;
pub mod p_cli;
pub mod p_crash;
pub mod p_diff;
pub mod p_files;
pub mod p_git;
pub mod p_history;
pub mod p_ignore;
pub mod p_index;
pub mod p_matchers;
pub mod p_merge;
pub mod p_opheads;
pub mod p_opmerge;
pub mod p_paths;
pub mod p_revset;
pub mod p_snapshot;
pub mod p_stores;
pub mod p_tables;
pub mod p_rewrite;
pub mod p_tree;
pub mod p_view;
pub mod reader;

use common::Ctx;

/// Dispatches a library-level property engine. Returns `None` if the id is
/// not served by this binary.
pub fn dispatch(ctx: &Ctx) -> Option<i32> {
    Some(match ctx.prop() {
        "C01" => p_merge::run_c01(ctx),
        "C02" => p_merge::run_c02(ctx),
        "C03" => p_diff::run_c03(ctx),
        "C04" => p_files::run_c04(ctx),
        "C05" => p_files::run_c05(ctx),
        "C06" => p_checkout::run_c06(ctx),
        "C07" => p_tree::run_c07(ctx),
        "C08" => p_rewrite::run_c08(ctx),
        "C09" => p_rewrite::run_c09(ctx),
        "C10" => p_view::run_c10(ctx),
        "C11" => p_view::run_c11(ctx),
        "C12" => p_opmerge::run_c12(ctx),
        "C13" => p_opmerge::run_c13(ctx),
        "C14" => p_opheads::run_c14(ctx),
        "C15" => p_crash::run_c15(ctx),
        "C16" => p_stores::run_c16(ctx),
        "C17" => p_stores::run_c17(ctx),
        "C18" => p_index::run_c18(ctx),
        "C19" => p_revset::run_c19(ctx),
        "C20" => p_index::run_c20(ctx),
        "C34" => p_git::run_c34(ctx),
        "C37" => p_history::run_c37(ctx),
        "C38" => p_history::run_c38(ctx),
        "C39" => p_revset::run_c39(ctx),
        "C21" => p_tables::run_c21(ctx),
        "C22" => p_tables::run_c22(ctx),
        "C23" => p_snapshot::run_c23(ctx),
        "C24" => p_checkout::run_c24(ctx),
        "C25" => p_checkout::run_c25(ctx),
        "C26" => p_snapshot::run_c26(ctx),
        "C27" => p_snapshot::run_c27(ctx),
        "C28" => p_ignore::run_c28(ctx),
        "C29" => p_checkout::run_c29(ctx),
        "C30" => p_matchers::run_c30(ctx),
        "C31" => p_matchers::run_c31(ctx),
        "C32" => p_paths::run_c32(ctx),
        "C33" => p_paths::run_c33(ctx),
        "C40" => p_cli::run_c40(ctx),
        "C41" => p_cli::run_c41(ctx),
        "C42" => p_cli::run_c42(ctx),
        "C43" => p_ignore::run_c43(ctx),
        "C45" => p_git::run_c45(ctx),
        "C46" => p_history::run_c46(ctx),
        _ => return None,
    })
}

pub fn level_of(prop: &str) -> &'static str {
    match prop {
        "C15" => "fault_enumeration",
        _ => "exploration",
    }
}

pub fn main_with(dispatch_fn: impl Fn(&Ctx) -> Option<i32>) -> ! {
    let argv: Vec<String> = std::env::args().skip(1).collect();
    let args = common::parse_args(&argv);
    common::install_panic_hook();
    testutils::hermetic_git();
    let level = level_of(&args.property);
    let ctx = Ctx::new(args, level);
    let code = match dispatch_fn(&ctx) {
        Some(code) => code,
        None => {
            println!("INCONCLUSIVE property={} reason=no engine for this id in this binary", ctx.prop());
            2
        }
    };
    std::process::exit(code);
}
