//! C37 (bisection), C38 (annotate) and C46 (evolution history).
//!
//! All three run the real jj code on generated histories inside a fresh
//! `TestRepo`; ancestry is always answered by the harness' own `Dag` (C37,
//! C38) or by the harness' own log of (new commit -> predecessors) edges (C46).

use std::collections::BTreeMap;
use std::collections::BTreeSet;
use std::collections::HashMap;
use std::collections::HashSet;
use std::collections::VecDeque;
use std::sync::Arc;

use futures::StreamExt as _;
use jj_lib::annotate::FileAnnotator;
use jj_lib::backend::CommitId;
use jj_lib::bisect::BisectionResult;
use jj_lib::bisect::Bisector;
use jj_lib::bisect::Evaluation;
use jj_lib::bisect::NextStep;
use jj_lib::commit::Commit;
use jj_lib::config::ConfigLayer;
use jj_lib::config::ConfigSource;
use jj_lib::evolution::walk_predecessors;
use jj_lib::object_id::ObjectId as _;
use jj_lib::op_store::OperationId;
use jj_lib::operation::Operation;
use jj_lib::repo::MutableRepo;
use jj_lib::repo::ReadonlyRepo;
use jj_lib::repo::Repo;
use jj_lib::revset::ResolvedRevsetExpression;
use jj_lib::revset::RevsetExpression;
use jj_lib::rewrite::RebaseOptions;
use jj_lib::rewrite::RebasedCommit;
use jj_lib::settings::UserSettings;
use jj_lib::transaction::Transaction;
use pollster::FutureExt as _;
use serde_json::Value;
use serde_json::json;
use testutils::TestRepo;

use crate::common::*;
use crate::dag::Dag;
use crate::dag::DagOptions;
use crate::dag::add_commit;
use crate::dag::grow_dag;
use crate::ensure;
use crate::model::Entry;
use crate::model::TreeModel;
use crate::model::rp;

fn ids_of(dag: &Dag, idxs: impl IntoIterator<Item = usize>) -> Vec<CommitId> {
    idxs.into_iter().map(|i| dag.id(i).clone()).collect()
}

fn all_ancestors(dag: &Dag) -> Vec<BTreeSet<usize>> {
    (0..dag.len()).map(|i| dag.ancestors(i)).collect()
}

fn parents_of(dag: &Dag) -> Vec<Vec<usize>> {
    dag.nodes.iter().map(|n| n.parents.clone()).collect()
}

/// Picks an index in `0..n`, biased to the recent (high) end.
fn recent(rng: &mut Rng, n: usize) -> usize {
    if rng.chance(2, 3) { n - 1 - rng.below(n.min(4)) } else { rng.below(n) }
}

thread_local! {
    static SHARED_REPO: std::cell::RefCell<Option<(TestRepo, u32)>> = const { std::cell::RefCell::new(None) };
}

/// Starts a transaction on a per-thread `TestRepo` that is never committed to (C37 and
/// C38 only write commits inside an uncommitted transaction, so the repo stays at its
/// initial operation and nothing is visible from one case to the next). The repo is
/// replaced every 200 uses to bound the size of its in-memory commit store.
fn start_scratch_transaction() -> Transaction {
    SHARED_REPO.with(|cell| {
        let mut slot = cell.borrow_mut();
        if slot.as_ref().is_none_or(|(_, uses)| *uses >= 200) {
            *slot = Some((TestRepo::init(), 0));
        }
        let (test_repo, uses) = slot.as_mut().unwrap();
        *uses += 1;
        test_repo.repo.start_transaction()
    })
}

// ===========================================================================
// C37 Bisection finds the first bad commit
// ===========================================================================

#[derive(Clone, Debug, Hash)]
enum RangeKind {
    /// `::heads`
    Ancestors(Vec<usize>),
    /// `roots..heads`
    Range(Vec<usize>, Vec<usize>),
    /// `roots::heads`
    DagRange(Vec<usize>, Vec<usize>),
    /// explicit list (gaps allowed)
    Explicit(Vec<usize>),
}

fn range_expr(dag: &Dag, kind: &RangeKind) -> Arc<ResolvedRevsetExpression> {
    let c = |v: &Vec<usize>| ResolvedRevsetExpression::commits(ids_of(dag, v.iter().copied()));
    match kind {
        RangeKind::Ancestors(h) => c(h).ancestors(),
        RangeKind::Range(r, h) => c(r).range(&c(h)),
        RangeKind::DagRange(r, h) => c(r).dag_range_to(&c(h)),
        RangeKind::Explicit(m) => c(m),
    }
}

/// The harness' own evaluation of the range (independent of the revset engine).
fn range_set(anc: &[BTreeSet<usize>], kind: &RangeKind) -> BTreeSet<usize> {
    let union = |v: &Vec<usize>| -> BTreeSet<usize> { v.iter().flat_map(|i| anc[*i].iter().copied()).collect() };
    match kind {
        RangeKind::Ancestors(h) => union(h),
        RangeKind::Range(r, h) => {
            let ex = union(r);
            union(h).into_iter().filter(|i| !ex.contains(i)).collect()
        }
        RangeKind::DagRange(r, h) => union(h)
            .into_iter()
            .filter(|i| r.iter().any(|root| anc[*i].contains(root)))
            .collect(),
        RangeKind::Explicit(m) => m.iter().copied().collect(),
    }
}

fn gen_range(rng: &mut Rng, dag: &Dag, anc: &[BTreeSet<usize>]) -> RangeKind {
    let n = dag.len();
    let pick_heads = |rng: &mut Rng| -> Vec<usize> {
        let k = if rng.chance(1, 4) { 2 } else { 1 };
        let mut v: Vec<usize> = (0..k).map(|_| recent(rng, n)).collect();
        v.sort();
        v.dedup();
        v
    };
    match rng.below(8) {
        0..=2 => RangeKind::Ancestors(pick_heads(rng)),
        3 | 4 => {
            let h = pick_heads(rng);
            let candidates: Vec<usize> = anc[h[0]].iter().copied().collect();
            let r = vec![*rng.pick(&candidates)];
            RangeKind::Range(r, h)
        }
        5 => {
            let h = pick_heads(rng);
            let candidates: Vec<usize> = anc[h[0]].iter().copied().collect();
            let r = vec![*rng.pick(&candidates)];
            RangeKind::DagRange(r, h)
        }
        _ => {
            // Subset (gaps allowed), mostly below one head so it is not just scattered points.
            let h = recent(rng, n);
            let mut m: Vec<usize> = anc[h].iter().copied().filter(|_| rng.chance(2, 3)).collect();
            if rng.chance(1, 3) {
                m.push(rng.below(n));
            }
            m.push(h);
            m.sort();
            m.dedup();
            RangeKind::Explicit(m)
        }
    }
}

struct BisectRun {
    asked: Vec<usize>,
    result: BisectionResult,
}

fn run_bisection(
    repo: &dyn Repo,
    dag: &Dag,
    expr: &Arc<ResolvedRevsetExpression>,
    range: &BTreeSet<usize>,
    bad: &BTreeSet<usize>,
    skip: &BTreeSet<usize>,
) -> Result<BisectRun, Fail> {
    let mut bisector = match Bisector::new(repo, expr.clone()).block_on() {
        Ok(b) => b,
        Err(e) => return Err(Fail { clause: "bisect.error".into(), message: format!("Bisector::new: {e}") }),
    };
    let mut asked: Vec<usize> = vec![];
    loop {
        let step = match bisector.next_step().block_on() {
            Ok(s) => s,
            Err(e) => return Err(Fail { clause: "bisect.error".into(), message: format!("next_step: {e}") }),
        };
        match step {
            NextStep::Evaluate(commit) => {
                let Some(i) = dag.idx(commit.id()) else {
                    return Err(Fail {
                        clause: "asked.unknown_commit".into(),
                        message: format!("asked about {} which the harness never created", commit.id().hex()),
                    });
                };
                ensure!(
                    !asked.contains(&i),
                    "asked.same_commit_twice",
                    "commit #{i} asked again; asked so far {asked:?}"
                );
                ensure!(
                    range.contains(&i),
                    "asked.outside_range",
                    "commit #{i} is not in the range {range:?}; asked so far {asked:?}"
                );
                asked.push(i);
                let evaluation = if skip.contains(&i) {
                    Evaluation::Skip
                } else if bad.contains(&i) {
                    Evaluation::Bad
                } else {
                    Evaluation::Good
                };
                bisector.mark(commit.id().clone(), evaluation);
            }
            NextStep::Done(result) => return Ok(BisectRun { asked, result }),
        }
    }
}

fn result_idxs(dag: &Dag, commits: &[Commit]) -> Result<Vec<usize>, Fail> {
    commits
        .iter()
        .map(|c| {
            dag.idx(c.id()).ok_or_else(|| Fail {
                clause: "result.unknown_commit".into(),
                message: format!("result names {} which the harness never created", c.id().hex()),
            })
        })
        .collect()
}

fn floor_log2(n: usize) -> usize {
    (usize::BITS - 1 - n.max(1).leading_zeros()) as usize
}

struct BisectObs {
    kind: &'static str,
    steps: usize,
    minimal: usize,
    skips_hit: usize,
    found_not_first_bad_under_skips: bool,
}

fn check_bisect_run(
    anc: &[BTreeSet<usize>],
    range: &BTreeSet<usize>,
    bad: &BTreeSet<usize>,
    skip: &BTreeSet<usize>,
    dag: &Dag,
    run: &BisectRun,
    chain: bool,
) -> Result<BisectObs, Fail> {
    let n = range.len();
    let skipped_asked: BTreeSet<usize> = run.asked.iter().copied().filter(|i| skip.contains(i)).collect();
    // First bad commits: bad members of the range with no bad member of the range as a proper ancestor.
    let minimal: BTreeSet<usize> = bad
        .iter()
        .copied()
        .filter(|&c| !bad.iter().any(|&o| o != c && anc[c].contains(&o)))
        .collect();
    let mut obs = BisectObs {
        kind: "",
        steps: run.asked.len(),
        minimal: minimal.len(),
        skips_hit: skipped_asked.len(),
        found_not_first_bad_under_skips: false,
    };
    if skipped_asked.is_empty() {
        // No answer was "skip": the full guarantee applies.
        let BisectionResult::Found(commits) = &run.result else {
            return Err(Fail {
                clause: "noskip.result_not_found".into(),
                message: format!("result {:?}; expected Found({minimal:?})", short_result(dag, &run.result)),
            });
        };
        obs.kind = "found";
        let reported = result_idxs(dag, commits)?;
        let reported_set: BTreeSet<usize> = reported.iter().copied().collect();
        ensure!(
            reported_set.len() == reported.len(),
            "noskip.found_lists_commit_twice",
            "Found({reported:?})"
        );
        for r in &reported {
            ensure!(
                minimal.contains(r),
                "noskip.reported_not_first_bad",
                "Found({reported:?}) but #{r} is {}; first bad commits are {minimal:?}; asked {:?}",
                if bad.contains(r) { "bad with an earlier bad commit in the range" } else { "good" },
                run.asked
            );
        }
        if chain {
            ensure!(
                run.asked.len() <= floor_log2(n) + 2,
                "linear.too_many_steps",
                "{} steps on a linear range of {n} commits (allowed {}); asked {:?}",
                run.asked.len(),
                floor_log2(n) + 2,
                run.asked
            );
        }
        // Completeness last, and the "shares a descendant" situation after the plain one, so
        // that it never hides another clause of the same run.
        let shares_descendant = |m: &usize| {
            reported
                .iter()
                .any(|r| range.iter().any(|d| anc[*d].contains(m) && anc[*d].contains(r)))
        };
        let missed: Vec<usize> = minimal.iter().copied().filter(|m| !reported_set.contains(m)).collect();
        let plain = missed.iter().find(|m| !shares_descendant(m));
        if let Some(m) = plain.or(missed.first()) {
            // A missed first-bad commit that shares a descendant (in the range) with a
            // reported one is a different situation from one in an unrelated part of the range.
            let clause = if shares_descendant(m) {
                "noskip.first_bad_missed.shares_descendant_with_reported"
            } else {
                "noskip.first_bad_missed"
            };
            return Err(Fail {
                clause: clause.into(),
                message: format!(
                    "Found({reported:?}) but #{m} is also an earliest bad commit of the range (all: {minimal:?}); asked {:?}",
                    run.asked
                ),
            });
        }
    } else {
        match &run.result {
            BisectionResult::Found(commits) => {
                obs.kind = "skips_found";
                for r in result_idxs(dag, commits)? {
                    ensure!(
                        bad.contains(&r),
                        "skips.found_reports_commit_that_is_not_bad",
                        "Found names #{r} which is good (bad set {bad:?}, skipped {skipped_asked:?}, asked {:?})",
                        run.asked
                    );
                    if !minimal.contains(&r) {
                        obs.found_not_first_bad_under_skips = true;
                    }
                }
            }
            BisectionResult::FoundDespiteSkips { bad_commits, possibly_bad } => {
                obs.kind = "skips_found_despite_skips";
                for r in result_idxs(dag, bad_commits)? {
                    ensure!(
                        bad.contains(&r),
                        "skips.bad_commits_reports_commit_that_is_not_bad",
                        "bad_commits names #{r} which is good (bad set {bad:?}, skipped {skipped_asked:?}, asked {:?})",
                        run.asked
                    );
                }
                for p in result_idxs(dag, possibly_bad)? {
                    ensure!(
                        skipped_asked.contains(&p),
                        "skips.possibly_bad_names_commit_that_was_not_skipped",
                        "possibly_bad names #{p}; skipped commits were {skipped_asked:?}, asked {:?}",
                        run.asked
                    );
                }
            }
            BisectionResult::Indeterminate => obs.kind = "skips_indeterminate",
            BisectionResult::Abort => {
                return Err(Fail {
                    clause: "result.abort_without_abort_answer".into(),
                    message: "Abort although no evaluation answered abort".into(),
                });
            }
        }
    }
    Ok(obs)
}

fn short_result(dag: &Dag, r: &BisectionResult) -> String {
    let f = |cs: &[Commit]| -> Vec<String> {
        cs.iter().map(|c| dag.idx(c.id()).map_or_else(|| c.id().hex(), |i| format!("#{i}"))).collect()
    };
    match r {
        BisectionResult::Found(cs) => format!("Found({:?})", f(cs)),
        BisectionResult::FoundDespiteSkips { bad_commits, possibly_bad } => {
            format!("FoundDespiteSkips(bad {:?}, possibly_bad {:?})", f(bad_commits), f(possibly_bad))
        }
        BisectionResult::Indeterminate => "Indeterminate".into(),
        BisectionResult::Abort => "Abort".into(),
    }
}

/// All bad sets of `range` that contain the heads and are closed under descendants.
fn monotone_bad_sets(anc: &[BTreeSet<usize>], range: &BTreeSet<usize>, heads: &BTreeSet<usize>) -> Vec<BTreeSet<usize>> {
    let free: Vec<usize> = range.iter().copied().filter(|i| !heads.contains(i)).collect();
    let mut out = vec![];
    for mask in 0u32..(1u32 << free.len()) {
        let mut bad: BTreeSet<usize> = heads.clone();
        for (j, m) in free.iter().enumerate() {
            if mask & (1 << j) != 0 {
                bad.insert(*m);
            }
        }
        let monotone = bad
            .iter()
            .all(|c| range.iter().all(|d| !anc[*d].contains(c) || bad.contains(d)));
        if monotone {
            out.push(bad);
        }
    }
    out
}

fn random_bad_set(rng: &mut Rng, anc: &[BTreeSet<usize>], range: &BTreeSet<usize>, heads: &BTreeSet<usize>) -> BTreeSet<usize> {
    let members: Vec<usize> = range.iter().copied().collect();
    let k = rng.weighted(&[1, 5, 2, 1]);
    let seeds: Vec<usize> = (0..k).map(|_| *rng.pick(&members)).collect();
    range
        .iter()
        .copied()
        .filter(|c| heads.contains(c) || seeds.iter().any(|s| anc[*c].contains(s)))
        .collect()
}

fn random_skip_set(rng: &mut Rng, range: &BTreeSet<usize>, heads: &BTreeSet<usize>) -> BTreeSet<usize> {
    let (num, den) = *rng.pick(&[(1usize, 8usize), (1, 3), (2, 3)]);
    range.iter().copied().filter(|c| !heads.contains(c) && rng.chance(num, den)).collect()
}

pub fn run_c37(ctx: &Ctx) -> i32 {
    ctx.set_rule(
        "Uncommitted transaction on a per-thread TestRepo; a commit graph (chain, or random DAG with up to 3 parents per commit) of \
         2..9 commits (small mode, 2/3 of the cases) or 12..200 commits (large mode); 2-3 ranges per graph \
         (::heads, roots..heads, roots::heads, explicit subsets with gaps; 1-2 heads) evaluated by the \
         harness' own ancestry. Small mode: EVERY descendant-closed bad set containing the range heads is \
         bisected without skips (and once more with a random skip set); large mode: random monotone bad \
         sets with and without random skip sets. The real Bisector is driven through next_step/mark. \
         Non-trivial: range of >=3 commits and at least one question asked. Distinct: by (graph, range, \
         bad set, skip set).",
    );
    ctx.set_exhaustive(true);
    ctx.set_extra(
        "exhaustive_bound",
        json!("small mode: all monotone bad sets (descendant-closed, containing the range heads) of every generated range; ranges have <= 10 commits (graphs of <= 9 commits plus the root)"),
    );
    ctx.assume("an evaluation answering 'skip' that is never requested cannot influence the run, so such runs are judged by the no-skip oracle");
    let n_cases = ctx.tier().pick(6_000, 60_000);
    par_cases(ctx, n_cases, threads(), |i, cs, rng| {
        let small = !rng.chance(1, 3);
        let n_commits = if small { rng.range(2, 9) } else { rng.range(12, 200) };
        let shape = rng.weighted(&[3, 4, 2]); // chain, random, bushy
        let n_ranges = if small { 3 } else { 2 };
        // Build the graph (its own guarded step so that a failure here is classified, not fatal).
        let mut built: Option<(Transaction, Dag)> = None;
        run_case(ctx, i, cs, || json!({"small": small, "n_commits": n_commits, "shape": shape, "stage": "build"}), || {
            let mut tx = start_scratch_transaction();
            let mut dag = Dag::new(tx.repo().store());
            match shape {
                0 => {
                    for k in 0..n_commits {
                        let last = dag.len() - 1;
                        add_commit(tx.repo_mut(), &mut dag, &[last], None, None, &format!("c{k}"));
                    }
                }
                _ => {
                    let opts = DagOptions { merge_percent: if shape == 1 { 20 } else { 45 }, ..DagOptions::default() };
                    grow_dag(rng, tx.repo_mut(), &mut dag, n_commits, &opts);
                }
            }
            built = Some((tx, dag));
            Ok(())
        });
        let Some((tx, dag)) = built else {
            return;
        };
        let anc = all_ancestors(&dag);
        let parents = parents_of(&dag);
        let graph_hash = stable_hash(&parents);
        for _ in 0..n_ranges {
            let kind = if shape == 0 && rng.chance(1, 2) {
                RangeKind::Ancestors(vec![dag.len() - 1])
            } else {
                gen_range(rng, &dag, &anc)
            };
            let range = range_set(&anc, &kind);
            if range.is_empty() {
                ctx.count("range.empty_skipped");
                continue;
            }
            let expr = range_expr(&dag, &kind);
            let heads: BTreeSet<usize> = range
                .iter()
                .copied()
                .filter(|h| !range.iter().any(|o| o != h && anc[*o].contains(h)))
                .collect();
            let members: Vec<usize> = range.iter().copied().collect();
            let chain = members.windows(2).all(|w| anc[w[1]].contains(&w[0]));
            // Convex: every commit between two members of the range is a member.
            let contiguous = range.iter().all(|c| {
                anc[*c]
                    .iter()
                    .filter(|b| !range.contains(b))
                    .all(|b| !anc[*b].iter().any(|a| range.contains(a)))
            });
            let has_merge = range.iter().any(|c| parents[*c].iter().filter(|p| range.contains(p)).count() > 1);
            let bad_sets: Vec<BTreeSet<usize>> = if small {
                let sets = monotone_bad_sets(&anc, &range, &heads);
                ctx.count("range.exhaustive");
                ctx.count_n("bad_sets.exhaustive", sets.len() as u64);
                sets
            } else {
                (0..6).map(|_| random_bad_set(rng, &anc, &range, &heads)).collect()
            };
            ctx.count(match &kind {
                RangeKind::Ancestors(_) => "range.kind.ancestors",
                RangeKind::Range(..) => "range.kind.range",
                RangeKind::DagRange(..) => "range.kind.dag_range",
                RangeKind::Explicit(_) => "range.kind.explicit",
            });
            if chain {
                ctx.count("range.linear");
            }
            if !contiguous {
                ctx.count("range.with_gaps");
            }
            if has_merge {
                ctx.count("range.with_merge");
            }
            if heads.len() > 1 {
                ctx.count("range.multiple_heads");
            }
            ctx.max("range.max_size", range.len() as u64);
            for bad in &bad_sets {
                let with_skips = if small { rng.chance(1, 2) } else { true };
                let mut variants: Vec<BTreeSet<usize>> = vec![BTreeSet::new()];
                if with_skips {
                    variants.push(random_skip_set(rng, &range, &heads));
                }
                for skip in &variants {
                    if ctx.violations() >= 5 {
                        return;
                    }
                    // Every bisection is its own guarded evaluation.
                    let describe = || {
                        json!({"parents": parents, "range_kind": format!("{kind:?}"), "range": range, "bad": bad, "skip": skip})
                    };
                    run_case(ctx, i, cs, describe, || {
                        let run = run_bisection(tx.repo(), &dag, &expr, &range, bad, skip)?;
                        // Observations are recorded even when a clause fails afterwards.
                        let result = check_bisect_run(&anc, &range, bad, skip, &dag, &run, chain);
                        let nontrivial = range.len() >= 3 && !run.asked.is_empty();
                        ctx.case(stable_hash(&(graph_hash, &range, bad, skip)), nontrivial);
                        ctx.max("max_steps", run.asked.len() as u64);
                        let obs = result?;
                        ctx.count(&format!("result.{}", obs.kind));
                        if obs.skips_hit > 0 {
                            ctx.count("runs.with_skip_answers");
                            if obs.found_not_first_bad_under_skips {
                                ctx.count(if contiguous {
                                    "observed.skips_found_not_first_bad.convex_range"
                                } else {
                                    "observed.skips_found_not_first_bad.gapped_range"
                                });
                            }
                        } else {
                            ctx.count("runs.no_skip_answers");
                            if obs.minimal > 1 {
                                ctx.count("noskip.several_first_bad_commits_all_reported");
                            }
                            if chain {
                                ctx.count("linear.step_bound_checked");
                                ctx.max("linear.max_steps", obs.steps as u64);
                                if range.len() >= 2 {
                                    ctx.max(
                                        "linear.max_steps_minus_floor_log2_plus_10",
                                        (obs.steps + 10 - floor_log2(range.len())) as u64,
                                    );
                                }
                            }
                        }
                        if nontrivial && has_merge && ctx.wants_sample() {
                            ctx.sample(|| {
                                json!({"parents": parents, "range": range, "bad": bad, "skip": skip,
                                       "asked": run.asked, "result": short_result(&dag, &run.result)})
                            });
                        }
                        Ok(())
                    });
                }
            }
        }
    });
    ctx.finish(ctx.tier().pick(5_000, 200_000))
}

// ===========================================================================
// C38 Annotations blame the commit that introduced each line
// ===========================================================================

#[derive(Clone, Debug, PartialEq, Eq, Hash)]
struct LineM {
    /// Global order key (unique variant): every file is sorted by (key, id).
    key: u64,
    id: u32,
    text: Vec<u8>,
    /// Node that introduced the line (unique variant only).
    born: usize,
}

#[derive(Clone, Debug, Hash)]
struct NodeM {
    parents: Vec<usize>,
    lines: Vec<LineM>,
    other: u32,
}

fn content_of(lines: &[LineM]) -> Vec<u8> {
    lines.iter().flat_map(|l| l.text.iter().copied()).collect()
}

/// A line without final newline can only be the last line; others are dropped.
fn normalise(lines: &mut Vec<LineM>) {
    let n = lines.len();
    let mut i = 0;
    lines.retain(|l| {
        i += 1;
        l.text.ends_with(b"\n") || i == n
    });
}

fn gen_parents(rng: &mut Rng, i: usize) -> Vec<usize> {
    // i = index of the node being created; nodes 0..i exist, 0 is the root.
    if i >= 3 && rng.chance(3, 10) {
        let k = if i >= 4 && rng.chance(1, 5) { 3 } else { 2 };
        let mut parents: Vec<usize> = vec![];
        let mut guard = 0;
        while parents.len() < k && guard < 50 {
            guard += 1;
            let p = 1 + recent(rng, i - 1);
            if !parents.contains(&p) {
                parents.push(p);
            }
        }
        parents
    } else {
        vec![recent(rng, i)]
    }
}

struct UniqueGen {
    next_id: u32,
}

impl UniqueGen {
    fn new_line(&mut self, key: u64, born: usize, newline: bool) -> LineM {
        self.next_id += 1;
        let mut text = format!("L{}", self.next_id).into_bytes();
        if self.next_id % 7 == 0 {
            text.extend_from_slice(b" with some more words on the line");
        }
        if newline {
            text.push(b'\n');
        }
        LineM { key, id: self.next_id, text, born }
    }

    fn insert(&mut self, rng: &mut Rng, lines: &mut Vec<LineM>, born: usize) {
        let pos = rng.below(lines.len() + 1);
        let prev = if pos == 0 { 0 } else { lines[pos - 1].key };
        let key = if pos == lines.len() {
            prev + (1u64 << 32)
        } else {
            let next = lines[pos].key;
            let mid = prev + (next - prev) / 2;
            if mid == prev {
                return; // no room between the neighbours
            }
            mid
        };
        let newline = !(pos == lines.len() && rng.chance(1, 8));
        lines.push(self.new_line(key, born, newline));
        lines.sort_by_key(|l| (l.key, l.id));
    }

    fn edit(&mut self, rng: &mut Rng, base: &[LineM], born: usize, max_ops: usize) -> Vec<LineM> {
        let mut lines = base.to_vec();
        let ops = rng.range(1, max_ops.max(1));
        for _ in 0..ops {
            match rng.below(10) {
                0..=4 => self.insert(rng, &mut lines, born),
                5..=7 if !lines.is_empty() => {
                    lines.remove(rng.below(lines.len()));
                }
                8 if !lines.is_empty() => {
                    // replace: the old line disappears, a new one takes (about) its place
                    let at = rng.below(lines.len());
                    let key = lines[at].key;
                    lines.remove(at);
                    let newline = !(at == lines.len() && rng.chance(1, 8));
                    lines.push(self.new_line(key, born, newline));
                    lines.sort_by_key(|l| (l.key, l.id));
                }
                9 if rng.chance(1, 3) => lines.clear(),
                _ => self.insert(rng, &mut lines, born),
            }
        }
        normalise(&mut lines);
        lines
    }
}

fn gen_unique_history(rng: &mut Rng, n: usize) -> Vec<NodeM> {
    let mut g = UniqueGen { next_id: 0 };
    let mut nodes = vec![NodeM { parents: vec![], lines: vec![], other: 0 }];
    let union_bias = *rng.pick(&[0usize, 50, 100]); // percent of merges that are plain unions
    for i in 1..=n {
        let parents = gen_parents(rng, i);
        let mut other = nodes[parents[0]].other;
        let lines = if parents.len() == 1 {
            if rng.chance(1, 4) {
                other = i as u32; // touches only the other file
                nodes[parents[0]].lines.clone()
            } else {
                g.edit(rng, &nodes[parents[0]].lines, i, 3)
            }
        } else {
            let mut all: Vec<LineM> = vec![];
            for p in &parents {
                for l in &nodes[*p].lines {
                    if !all.contains(l) {
                        all.push(l.clone());
                    }
                }
            }
            all.sort_by_key(|l| (l.key, l.id));
            let union = rng.chance(union_bias, 100);
            let mut lines: Vec<LineM> = all
                .into_iter()
                .filter(|l| union || parents.iter().all(|p| nodes[*p].lines.contains(l)) || rng.bool())
                .collect();
            normalise(&mut lines);
            if rng.chance(1, 3) { g.edit(rng, &lines, i, 2) } else { lines }
        };
        nodes.push(NodeM { parents, lines, other });
    }
    nodes
}

fn gen_dup_history(rng: &mut Rng, n: usize) -> Vec<NodeM> {
    let pool: Vec<&[u8]> = vec![b"a\n", b"b\n", b"c\n", b"\n", b"a\n", b"}\n"];
    let mk = |text: &[u8]| LineM { key: 0, id: 0, text: text.to_vec(), born: 0 };
    let fix_tail = |rng: &mut Rng, lines: &mut Vec<LineM>| {
        normalise(lines);
        if !lines.is_empty() && rng.chance(1, 10) {
            let last = lines.len() - 1;
            if lines[last].text.ends_with(b"\n") && lines[last].text.len() > 1 {
                lines[last].text.pop();
            }
        }
    };
    let mut nodes = vec![NodeM { parents: vec![], lines: vec![], other: 0 }];
    for i in 1..=n {
        let parents = gen_parents(rng, i);
        let mut other = nodes[parents[0]].other;
        let mut lines: Vec<LineM>;
        if parents.len() == 1 && rng.chance(1, 5) {
            other = i as u32;
            lines = nodes[parents[0]].lines.clone();
        } else {
            if parents.len() == 1 {
                lines = nodes[parents[0]].lines.clone();
            } else {
                // interleave the parents' lines in blocks, dropping some
                lines = vec![];
                let mut cursors: Vec<usize> = vec![0; parents.len()];
                let mut guard = 0;
                while guard < 200 && parents.iter().zip(&cursors).any(|(p, c)| *c < nodes[*p].lines.len()) {
                    guard += 1;
                    let k = rng.below(parents.len());
                    let src = &nodes[parents[k]].lines;
                    let take = rng.range(1, 3);
                    for _ in 0..take {
                        if cursors[k] < src.len() {
                            if !rng.chance(1, 3) {
                                lines.push(src[cursors[k]].clone());
                            }
                            cursors[k] += 1;
                        }
                    }
                }
            }
            // restore newline on every line first (a former last line may move)
            for l in &mut lines {
                if !l.text.ends_with(b"\n") {
                    l.text.push(b'\n');
                }
            }
            for _ in 0..rng.range(1, 3) {
                match rng.below(6) {
                    0..=2 => {
                        let at = rng.below(lines.len() + 1);
                        let t: &[u8] = pool[rng.below(pool.len())];
                        lines.insert(at, mk(t));
                    }
                    3 if !lines.is_empty() => {
                        lines.remove(rng.below(lines.len()));
                    }
                    4 if lines.len() >= 2 => {
                        let a = rng.below(lines.len());
                        let l = lines.remove(a);
                        let b = rng.below(lines.len() + 1);
                        lines.insert(b, l);
                    }
                    5 if !lines.is_empty() => {
                        let a = rng.below(lines.len());
                        let l = lines[a].clone();
                        lines.insert(a, l);
                    }
                    _ => {}
                }
            }
            fix_tail(rng, &mut lines);
        }
        nodes.push(NodeM { parents, lines, other });
    }
    nodes
}

fn materialize_history(mut_repo: &mut MutableRepo, nodes: &[NodeM]) -> Dag {
    let mut dag = Dag::new(mut_repo.store());
    for (i, node) in nodes.iter().enumerate().skip(1) {
        let mut tree = TreeModel::new();
        if !node.lines.is_empty() {
            tree.insert("f".into(), Entry::File { content: content_of(&node.lines), exec: false });
        }
        tree.insert("g".into(), Entry::File { content: format!("{}\n", node.other).into_bytes(), exec: false });
        let idx = add_commit(mut_repo, &mut dag, &node.parents, Some(tree), None, &format!("c{i}"));
        assert_eq!(idx, i);
    }
    dag
}

#[derive(Clone, Debug)]
struct DomainM {
    desc: String,
    expr: Arc<ResolvedRevsetExpression>,
    /// Members (harness evaluation); always contains the start commit.
    set: BTreeSet<usize>,
}

fn gen_domain(rng: &mut Rng, dag: &Dag, anc: &[BTreeSet<usize>], start: usize) -> DomainM {
    let n = dag.len();
    let all: BTreeSet<usize> = (0..n).collect();
    let proper: Vec<usize> = anc[start].iter().copied().filter(|a| *a != start).collect();
    let c = |v: &[usize]| ResolvedRevsetExpression::commits(ids_of(dag, v.iter().copied()));
    let start_expr = c(&[start]);
    match rng.below(10) {
        0..=3 => DomainM { desc: "all()".into(), expr: RevsetExpression::all(), set: all },
        4 | 5 if !proper.is_empty() => {
            let k = if rng.chance(1, 3) { 2 } else { 1 };
            let mut xs: Vec<usize> = (0..k).map(|_| *rng.pick(&proper)).collect();
            xs.sort();
            xs.dedup();
            let ex: BTreeSet<usize> = xs.iter().flat_map(|x| anc[*x].iter().copied()).collect();
            let set = anc[start].iter().copied().filter(|i| !ex.contains(i)).collect();
            DomainM { desc: format!("{xs:?}..#{start}"), expr: c(&xs).range(&start_expr), set }
        }
        6 if !proper.is_empty() => {
            let xs = vec![*rng.pick(&proper)];
            let ex: BTreeSet<usize> = anc[xs[0]].clone();
            let set = all.iter().copied().filter(|i| !ex.contains(i)).collect();
            DomainM { desc: format!("~::{xs:?}"), expr: c(&xs).ancestors().negated(), set }
        }
        7 if !proper.is_empty() => {
            let y = *rng.pick(&proper);
            let mut set = anc[y].clone();
            set.insert(start);
            DomainM { desc: format!("::#{y} | #{start}"), expr: c(&[y]).ancestors().union(&start_expr), set }
        }
        _ => {
            let mut set: BTreeSet<usize> = (0..n).filter(|_| rng.chance(1, 2)).collect();
            set.insert(start);
            let members: Vec<usize> = set.iter().copied().collect();
            DomainM { desc: format!("commits({members:?})"), expr: c(&members), set }
        }
    }
}

struct AnnObs {
    lines: usize,
    distinct_origins: usize,
    boundary_lines: usize,
    strong_checked: usize,
    carried_checked: usize,
    carried_unknown: usize,
}

type Origin = Result<(CommitId, usize), (CommitId, usize)>;

const START_BOUNDARY_CLAUSE: &str = "unique.line_left_as_boundary_at_start_commit";
const MERGE_CLAUSE: &str = "unique.merge_blamed_for_line_of_a_parent.introducer_reachable_via_two_parents";

fn check_annotation(
    unique: bool,
    nodes: &[NodeM],
    dag: &Dag,
    anc: &[BTreeSet<usize>],
    start: usize,
    domain: &DomainM,
    text: &[u8],
    origins: &[(Origin, Vec<u8>)],
) -> Result<AnnObs, Fail> {
    let model_lines = &nodes[start].lines;
    let expected_text = content_of(model_lines);
    ensure!(
        text == expected_text.as_slice(),
        "text_differs_from_file_content",
        "annotation text {:?}, file content {:?}",
        String::from_utf8_lossy(text),
        String::from_utf8_lossy(&expected_text)
    );
    ensure!(
        origins.len() == model_lines.len(),
        "line_count_differs",
        "{} annotated lines, the file has {}",
        origins.len(),
        model_lines.len()
    );
    // Upward closed within ::start: every commit between a member and the start is a member.
    let upward_closed = anc[start]
        .iter()
        .filter(|c| domain.set.contains(c))
        .all(|c| anc[start].iter().all(|d| !anc[*d].contains(c) || domain.set.contains(d)));
    // A commit is certainly in `files(f)` when its file differs from its only
    // parent's, or (merge) when it has a line of its own.
    let surely_changes_file = |p: usize| -> bool {
        if p == 0 {
            return false;
        }
        let node = &nodes[p];
        if node.parents.len() == 1 {
            content_of(&node.lines) != content_of(&nodes[node.parents[0]].lines)
        } else {
            node.lines.iter().any(|l| l.born == p)
        }
    };
    let mut obs = AnnObs { lines: origins.len(), distinct_origins: 0, boundary_lines: 0, strong_checked: 0, carried_checked: 0, carried_unknown: 0 };
    let mut seen_origins: BTreeSet<usize> = BTreeSet::new();
    let mut deferred: Option<Fail> = None;
    for (k, ((origin, line), model)) in origins.iter().zip(model_lines).enumerate() {
        ensure!(
            line == &model.text,
            "line_text_differs",
            "line {k}: {:?} vs file {:?}",
            String::from_utf8_lossy(line),
            String::from_utf8_lossy(&model.text)
        );
        let (is_ok, (commit_id, line_number)) = match origin {
            Ok(o) => (true, o),
            Err(o) => (false, o),
        };
        let Some(c) = dag.idx(commit_id) else {
            return Err(Fail {
                clause: "origin.unknown_commit".into(),
                message: format!("line {k} attributed to {}", commit_id.hex()),
            });
        };
        seen_origins.insert(c);
        ensure!(
            anc[start].contains(&c),
            "origin.not_an_ancestor_of_start",
            "line {k} {:?} attributed to #{c} ({}), not an ancestor of start #{start}",
            String::from_utf8_lossy(line),
            if is_ok { "origin" } else { "boundary" }
        );
        let at_origin = nodes[c].lines.get(*line_number).map(|l| &l.text);
        ensure!(
            at_origin == Some(&model.text),
            "origin.version_lacks_line_at_number",
            "line {k} {:?} attributed to #{c} line {line_number} ({}), where the file has {:?}; file of #{c}: {:?}",
            String::from_utf8_lossy(line),
            if is_ok { "origin" } else { "boundary" },
            at_origin.map(|t| String::from_utf8_lossy(t).into_owned()),
            String::from_utf8_lossy(&content_of(&nodes[c].lines))
        );
        if is_ok {
            ensure!(
                domain.set.contains(&c),
                "origin.outside_domain",
                "line {k} attributed (as origin, not boundary) to #{c} which is outside the domain {}",
                domain.desc
            );
        } else {
            obs.boundary_lines += 1;
        }
        if !unique {
            continue;
        }
        let introducer = model.born;
        // Situation with its own signature: the blamed commit is a merge, at least one of its
        // parents has the line, and the introducer is reachable through two or more of its
        // parents (so the line was dropped again on one side, or both sides carry it).
        let merge_with_introducer_on_two_sides = |c: usize| -> bool {
            let ps = &nodes[c].parents;
            ps.len() > 1
                && ps.iter().any(|p| nodes[*p].lines.contains(model))
                && ps.iter().filter(|p| anc[**p].contains(&introducer)).count() >= 2
        };
        let mut failure: Option<Fail> = None;
        if upward_closed && domain.set.contains(&introducer) {
            // Every commit between the introducer and the start is searched, so the line
            // must be followed down to the commit that introduced it.
            obs.strong_checked += 1;
            if !(is_ok && c == introducer) {
                let clause = if !is_ok && c == start {
                    START_BOUNDARY_CLAUSE
                } else if !is_ok {
                    "unique.origin_is_not_introducer.reported_as_boundary"
                } else if merge_with_introducer_on_two_sides(c) {
                    MERGE_CLAUSE
                } else {
                    "unique.origin_is_not_introducer"
                };
                failure = Some(Fail {
                    clause: clause.into(),
                    message: format!(
                        "line {k} {:?} was introduced by #{introducer} (inside the domain {}), but annotated {} #{c}; parents of #{c}: {:?}, of which {:?} have the line",
                        String::from_utf8_lossy(line),
                        domain.desc,
                        if is_ok { "as originating in" } else { "as boundary at" },
                        nodes[c].parents,
                        nodes[c].parents.iter().filter(|p| nodes[**p].lines.contains(model)).collect::<Vec<_>>()
                    ),
                });
            }
        }
        // A line left as "boundary" at the start commit itself is judged like an attribution to
        // the start commit (the start commit is inside the domain).
        if failure.is_none() && (is_ok || c == start) && c != introducer {
            // Not carried over from a parent that is itself in the searched set
            // (in the domain and changing the file).
            obs.carried_checked += 1;
            for p in &nodes[c].parents {
                if !domain.set.contains(p) || !nodes[*p].lines.contains(model) {
                    continue;
                }
                if surely_changes_file(*p) {
                    let clause = if !is_ok {
                        START_BOUNDARY_CLAUSE
                    } else if merge_with_introducer_on_two_sides(c) {
                        MERGE_CLAUSE
                    } else {
                        "unique.carried_over_from_searched_parent"
                    };
                    failure = Some(Fail {
                        clause: clause.into(),
                        message: format!(
                            "line {k} {:?} attributed to #{c}, but its parent #{p} is in the domain {}, changes the file and has the line (introduced by #{introducer}); parents of #{c}: {:?}",
                            String::from_utf8_lossy(line),
                            domain.desc,
                            nodes[c].parents
                        ),
                    });
                    break;
                }
                obs.carried_unknown += 1;
            }
        }
        if let Some(f) = failure {
            if f.clause == MERGE_CLAUSE || f.clause == START_BOUNDARY_CLAUSE {
                // Reported only if no other clause fails for this annotation.
                deferred.get_or_insert(f);
            } else {
                return Err(f);
            }
        }
    }
    obs.distinct_origins = seen_origins.len();
    if let Some(f) = deferred {
        return Err(f);
    }
    Ok(obs)
}

fn history_json(nodes: &[NodeM]) -> Value {
    Value::Array(
        nodes
            .iter()
            .enumerate()
            .map(|(i, n)| {
                json!({"i": i, "parents": n.parents, "file": String::from_utf8_lossy(&content_of(&n.lines)),
                       "born": n.lines.iter().map(|l| l.born).collect::<Vec<_>>()})
            })
            .collect(),
    )
}

pub fn run_c38(ctx: &Ctx) -> i32 {
    ctx.set_rule(
        "Uncommitted transaction on a per-thread TestRepo; history of 3..14 commits (30% merges with 2-3 parents) editing file 'f' \
         (insert / delete / replace lines, delete or re-create the file, commits touching only another \
         file). Unique variant (2/3): every line has a globally unique text and a global order key, so \
         files are always consistently ordered and the introducing commit is unambiguous; merge commits \
         take the union of the parents' lines or keep each one-sided line with probability 1/2, and may add \
         lines. Duplicate variant (1/3): lines from a 5-line pool, with moves and duplications, merges \
         interleave the parents. 5 (start, domain) pairs per history; domains: all(), xs..start, ~::x, \
         ::y|start, explicit subsets. Non-trivial: >=2 lines with >=2 distinct origins. Distinct: by \
         (history, start, domain).",
    );
    ctx.assume("FileAnnotator::compute's documented precondition 'pending commits are included in the domain' is respected: every generated domain contains the start commit");
    let n_cases = ctx.tier().pick(20_000, 300_000);
    par_cases(ctx, n_cases, threads(), |i, cs, rng| {
        let unique = !rng.chance(1, 3);
        let n = rng.range(3, 14);
        let nodes = if unique { gen_unique_history(rng, n) } else { gen_dup_history(rng, n) };
        let mut built: Option<(Transaction, Dag)> = None;
        run_case(ctx, i, cs, || json!({"unique": unique, "history": history_json(&nodes), "stage": "build"}), || {
            let mut tx = start_scratch_transaction();
            let dag = materialize_history(tx.repo_mut(), &nodes);
            built = Some((tx, dag));
            Ok(())
        });
        let Some((tx, dag)) = built else {
            return;
        };
        let anc = all_ancestors(&dag);
        let history_hash = stable_hash(&nodes);
        let path = rp("f");
        for _ in 0..5 {
            if ctx.violations() >= 5 {
                return;
            }
            let start = 1 + recent(rng, dag.len() - 1);
            let domain = gen_domain(rng, &dag, &anc, start);
            let describe = || {
                json!({"unique": unique, "history": history_json(&nodes),
                       "query": {"start": start, "domain": domain.desc, "domain_set": domain.set}})
            };
            // Every annotation is its own guarded evaluation.
            run_case(ctx, i, cs, describe, || {
                let mut annotator = match FileAnnotator::from_commit(dag.commit(start), &path).block_on() {
                    Ok(a) => a,
                    Err(e) => return fail("annotate.error", format!("from_commit: {e}")),
                };
                if let Err(e) = annotator.compute(tx.repo(), &domain.expr).block_on() {
                    return fail("annotate.error", format!("compute: {e}"));
                }
                let annotation = annotator.to_annotation();
                let text: Vec<u8> = annotation.text().to_vec();
                let origins: Vec<(Origin, Vec<u8>)> = annotation
                    .line_origins()
                    .map(|(o, line)| {
                        let o = match o {
                            Ok(o) => Ok((o.commit_id.clone(), o.line_number)),
                            Err(o) => Err((o.commit_id.clone(), o.line_number)),
                        };
                        (o, line.to_vec())
                    })
                    .collect();
                let distinct: BTreeSet<&CommitId> = origins.iter().map(|(o, _)| match o { Ok(o) | Err(o) => &o.0 }).collect();
                let nontrivial = origins.len() >= 2 && distinct.len() >= 2;
                ctx.case(stable_hash(&(history_hash, start, &domain.desc)), nontrivial);
                let obs = check_annotation(unique, &nodes, &dag, &anc, start, &domain, &text, &origins)?;
                ctx.count(if unique { "annotations.unique_lines" } else { "annotations.duplicate_lines" });
                ctx.count_n("lines.annotated", obs.lines as u64);
                ctx.count_n("lines.boundary", obs.boundary_lines as u64);
                ctx.count_n("lines.introducer_clause_checked", obs.strong_checked as u64);
                ctx.count_n("lines.not_carried_over_clause_checked", obs.carried_checked as u64);
                ctx.count_n("lines.not_carried_over_clause_parent_undecided", obs.carried_unknown as u64);
                ctx.count(&format!("domain.{}", match domain.desc.as_bytes()[0] {
                    b'a' => "all",
                    b'[' => "range",
                    b'~' => "not_ancestors",
                    b':' => "ancestors_of",
                    _ => "subset",
                }));
                if nodes[start].parents.len() > 1 {
                    ctx.count("start.is_merge");
                }
                if anc[start].iter().any(|a| nodes[*a].parents.len() > 1) {
                    ctx.count("start.has_merge_ancestor");
                }
                if obs.distinct_origins >= 3 {
                    ctx.count("annotations.with_3_or_more_origins");
                }
                if nontrivial && ctx.wants_sample() {
                    ctx.sample(|| {
                        json!({"unique": unique, "history": history_json(&nodes), "start": start, "domain": domain.desc,
                               "origins": origins.iter().map(|(o, l)| {
                                   let (tag, (id, n)) = match o { Ok(o) => ("origin", o), Err(o) => ("boundary", o) };
                                   json!([String::from_utf8_lossy(l), tag, dag.idx(id), n])
                               }).collect::<Vec<_>>()})
                    });
                }
                Ok(())
            });
        }
    });
    ctx.finish(ctx.tier().pick(3_000, 150_000))
}

// ===========================================================================
// C46 Evolution history is complete and acyclic
// ===========================================================================

type Edge = (CommitId, Vec<CommitId>);

fn evo_settings(fixed_time: bool) -> UserSettings {
    let mut config = testutils::base_user_config();
    if fixed_time {
        config.add_layer(
            ConfigLayer::parse(ConfigSource::User, "debug.commit-timestamp = \"2001-02-03T04:05:06+07:00\"\n").unwrap(),
        );
    }
    UserSettings::from_config(config).unwrap()
}

/// Visible non-root commits, in an order that does not depend on commit ids
/// unless two visible commits share a description.
fn visible_commits(repo: &dyn Repo) -> Vec<Commit> {
    let store = repo.store();
    let root = store.root_commit_id().clone();
    let mut seen: HashSet<CommitId> = HashSet::new();
    let mut queue: VecDeque<CommitId> = repo.view().heads().iter().cloned().collect();
    let mut out = vec![];
    while let Some(id) = queue.pop_front() {
        if id == root || !seen.insert(id.clone()) {
            continue;
        }
        let commit = store.get_commit(&id).unwrap();
        queue.extend(commit.parent_ids().iter().cloned());
        out.push(commit);
    }
    out.sort_by(|a, b| (a.description(), a.id()).cmp(&(b.description(), b.id())));
    out
}

/// `a` is an ancestor of, or equal to, `of` (plain walk over commit objects).
fn commit_is_ancestor(a: &CommitId, of: &Commit) -> bool {
    let store = of.store();
    let mut seen: HashSet<CommitId> = HashSet::new();
    let mut stack = vec![of.id().clone()];
    while let Some(id) = stack.pop() {
        if &id == a {
            return true;
        }
        if !seen.insert(id.clone()) {
            continue;
        }
        let commit = store.get_commit(&id).unwrap();
        stack.extend(commit.parent_ids().iter().cloned());
    }
    false
}

/// Runs a jj call that this property does not monitor; a panic inside it ends the case
/// (counted) instead of being attributed to this property.
fn unmonitored<T>(what: &str, f: impl FnOnce() -> Result<T, String>) -> Result<T, Stop> {
    match catch(f) {
        Caught::Ok(Ok(v)) => Ok(v),
        Caught::Ok(Err(e)) => Err(Stop::Skip(format!("{what}: {e}"))),
        Caught::SubjectPanic { location, message } => {
            let file = location.rsplit('/').next().unwrap_or("").to_owned();
            Err(Stop::Skip(format!("panic in {what} at {file}: {}", message.lines().next().unwrap_or(""))))
        }
        Caught::HarnessPanic { location, message } => Err(Stop::Skip(format!("harness panic in {what} at {location}: {message}"))),
    }
}

enum Stop {
    Violation(Fail),
    /// jj refused something outside this property (counted, case ends).
    Skip(String),
}

impl From<Fail> for Stop {
    fn from(f: Fail) -> Self {
        Self::Violation(f)
    }
}

struct Evo<'a> {
    ctx: &'a Ctx,
    op_log: HashMap<OperationId, Vec<Edge>>,
    record_checked: HashSet<OperationId>,
    repos: Vec<Arc<ReadonlyRepo>>,
    counter: u32,
    script: Vec<String>,
    features: BTreeSet<&'static str>,
    max_closure: usize,
    walks: u64,
}

impl Evo<'_> {
    fn fresh(&mut self, prefix: &str) -> String {
        self.counter += 1;
        format!("{prefix}{}", self.counter)
    }

    fn rebase_logged(&mut self, mut_repo: &mut MutableRepo, edges: &mut Vec<Edge>) -> Result<(), Stop> {
        if !mut_repo.has_rewrites() {
            return Ok(());
        }
        let mut events: Vec<(Commit, RebasedCommit)> = vec![];
        unmonitored("rebase_descendants", || {
            mut_repo
                .rebase_descendants_with_options(&RevsetExpression::none(), &RebaseOptions::default(), |old, rebased| {
                    events.push((old, rebased));
                })
                .block_on()
                .map_err(|e| format!("{e:?}"))
        })?;
        for (old, rebased) in events {
            if let RebasedCommit::Rewritten(new) = rebased {
                edges.push((new.id().clone(), vec![old.id().clone()]));
                self.ctx.count("edges.rebased_descendant");
            }
        }
        Ok(())
    }

    /// Runs 1..=3 rewrite actions in one transaction on `base` and commits it.
    fn run_tx(&mut self, rng: &mut Rng, base: &Arc<ReadonlyRepo>, label: &str) -> Result<Arc<ReadonlyRepo>, Stop> {
        let mut tx = base.start_transaction();
        let mut edges: Vec<Edge> = vec![];
        let n_actions = rng.weighted(&[0, 5, 3, 2]);
        for _ in 0..n_actions {
            self.action(rng, &mut tx, &mut edges)?;
            self.rebase_logged(tx.repo_mut(), &mut edges)?;
        }
        let repo = unmonitored("tx.commit", || tx.commit(label).block_on().map_err(|e| format!("{e}")))?;
        self.op_log.insert(repo.op_id().clone(), edges);
        Ok(repo)
    }

    fn write_logged(
        &mut self,
        builder: jj_lib::commit_builder::CommitBuilder<'_>,
        expected_predecessors: Vec<CommitId>,
        edges: &mut Vec<Edge>,
        kind: &'static str,
    ) -> Result<Option<Commit>, Stop> {
        match builder.write().block_on() {
            Ok(commit) => {
                edges.push((commit.id().clone(), expected_predecessors));
                self.ctx.count(&format!("edges.{kind}"));
                Ok(Some(commit))
            }
            Err(e) => {
                let text = format!("{e:?}");
                if text.contains("already exists") {
                    self.ctx.count("write_refused.commit_already_exists");
                    Ok(None)
                } else {
                    Err(Stop::Skip(format!("write: {text}")))
                }
            }
        }
    }

    fn action(&mut self, rng: &mut Rng, tx: &mut Transaction, edges: &mut Vec<Edge>) -> Result<(), Stop> {
        let visible = visible_commits(tx.repo());
        let store = tx.repo().store().clone();
        if visible.len() < 2 {
            // grow
            let parent = visible.first().map_or_else(|| store.root_commit_id().clone(), |c| c.id().clone());
            let desc = self.fresh("n");
            let tree = store.root_commit().tree();
            let builder = tx.repo_mut().new_commit(vec![parent], tree).set_description(&desc);
            self.write_logged(builder, vec![], edges, "new")?;
            self.script.push(format!("new {desc}"));
            return Ok(());
        }
        let pick = |rng: &mut Rng| -> Commit { visible[rng.below(visible.len())].clone() };
        if std::env::var("C46_DEBUG").is_ok() {
            eprintln!("-- visible before next action (last script line: {:?})", self.script.last());
            for c in &visible {
                eprintln!("   {} {} change {} parents {:?}", c.description(), &c.id().hex()[..8], &c.change_id().hex()[..8], c.parent_ids().iter().map(|p| p.hex()[..8].to_owned()).collect::<Vec<_>>());
            }
        }
        match rng.weighted(&[4, 3, 4, 3, 2, 2, 2]) {
            0 => {
                // describe-like
                let c = pick(rng);
                let desc = self.fresh("d");
                self.script.push(format!("describe {} -> {desc}", c.description()));
                let builder = tx.repo_mut().rewrite_commit(&c).set_description(&desc);
                self.write_logged(builder, vec![c.id().clone()], edges, "describe")?;
            }
            1 => {
                // rebase-like: new parent must not be a descendant of the commit
                let c = pick(rng);
                let candidates: Vec<&Commit> = visible.iter().filter(|p| !commit_is_ancestor(c.id(), p)).collect();
                let parent_id = if candidates.is_empty() || rng.chance(1, 6) {
                    store.root_commit_id().clone()
                } else {
                    candidates[rng.below(candidates.len())].id().clone()
                };
                let desc = self.fresh("r");
                self.script.push(format!("rebase {} -> {desc}", c.description()));
                let builder = tx.repo_mut().rewrite_commit(&c).set_parents(vec![parent_id]).set_description(&desc);
                self.write_logged(builder, vec![c.id().clone()], edges, "rebase")?;
            }
            2 => {
                // squash-like: `b` into `a`; one commit with two predecessors, `b` abandoned
                let a = pick(rng);
                let others: Vec<&Commit> = visible.iter().filter(|b| b.id() != a.id() && !commit_is_ancestor(b.id(), &a)).collect();
                if others.is_empty() {
                    return Ok(());
                }
                let b = others[rng.below(others.len())].clone();
                let desc = self.fresh("s");
                self.script.push(format!("squash {} into {} -> {desc}", b.description(), a.description()));
                let preds = vec![a.id().clone(), b.id().clone()];
                let builder = tx.repo_mut().rewrite_commit(&a).set_predecessors(preds.clone()).set_description(&desc);
                if self.write_logged(builder, preds, edges, "squash")?.is_some() {
                    tx.repo_mut().record_abandoned_commit(&b);
                    self.features.insert("squash");
                }
            }
            3 => {
                // split-like: two commits with the same predecessor
                let c = pick(rng);
                let d1 = self.fresh("p");
                let d2 = self.fresh("q");
                self.script.push(format!("split {} -> {d1}, {d2}", c.description()));
                let builder = tx.repo_mut().rewrite_commit(&c).set_description(&d1);
                let Some(first) = self.write_logged(builder, vec![c.id().clone()], edges, "split_first")? else {
                    return Ok(());
                };
                let parents = if rng.bool() { vec![first.id().clone()] } else { c.parent_ids().to_vec() };
                let builder = tx
                    .repo_mut()
                    .rewrite_commit(&c)
                    .generate_new_change_id()
                    .set_parents(parents)
                    .set_description(&d2);
                if self.write_logged(builder, vec![c.id().clone()], edges, "split_second")?.is_some() {
                    self.features.insert("split");
                }
            }
            4 => {
                let c = pick(rng);
                self.script.push(format!("abandon {}", c.description()));
                tx.repo_mut().record_abandoned_commit(&c);
                self.features.insert("abandon");
            }
            5 => {
                // chain inside one operation: c -> c1 -> c2
                let c = pick(rng);
                let d1 = self.fresh("x");
                let d2 = self.fresh("y");
                self.script.push(format!("rewrite twice {} -> {d1} -> {d2}", c.description()));
                let builder = tx.repo_mut().rewrite_commit(&c).set_description(&d1);
                let Some(c1) = self.write_logged(builder, vec![c.id().clone()], edges, "chain_first")? else {
                    return Ok(());
                };
                let builder = tx.repo_mut().rewrite_commit(&c1).set_description(&d2);
                if self.write_logged(builder, vec![c1.id().clone()], edges, "chain_second")?.is_some() {
                    self.features.insert("chain_in_one_op");
                }
            }
            _ => {
                let parent = pick(rng);
                let desc = self.fresh("n");
                self.script.push(format!("new {desc} on {}", parent.description()));
                let builder = tx.repo_mut().new_commit(vec![parent.id().clone()], parent.tree()).set_description(&desc);
                self.write_logged(builder, vec![], edges, "new")?;
            }
        }
        Ok(())
    }

    fn op_ancestors(&self, repo: &ReadonlyRepo) -> Result<HashMap<OperationId, Operation>, Stop> {
        let mut ops: HashMap<OperationId, Operation> = HashMap::new();
        let mut stack = vec![repo.operation().clone()];
        while let Some(op) = stack.pop() {
            if ops.contains_key(op.id()) {
                continue;
            }
            let parents = op.parents().block_on().map_err(|e| Stop::Skip(format!("op.parents: {e}")))?;
            ops.insert(op.id().clone(), op);
            stack.extend(parents);
        }
        Ok(ops)
    }

    /// Oracle: recorded edges and walks at `repo`.
    fn check(&mut self, rng: &mut Rng, repo: &Arc<ReadonlyRepo>, max_starts: usize) -> Result<(), Stop> {
        let ops = self.op_ancestors(repo)?;
        let mut graph: BTreeMap<CommitId, Vec<CommitId>> = BTreeMap::new();
        let add = |graph: &mut BTreeMap<CommitId, Vec<CommitId>>, new: &CommitId, preds: &[CommitId], ctx: &Ctx| {
            match graph.get_mut(new) {
                None => {
                    graph.insert(new.clone(), preds.to_vec());
                }
                Some(existing) => {
                    ctx.count("commit_created_in_two_operations");
                    for p in preds {
                        if !existing.contains(p) {
                            existing.push(p.clone());
                        }
                    }
                }
            }
        };
        for (op_id, op) in &ops {
            let Some(recorded) = &op.store_operation().commit_predecessors else {
                // Legacy operation: evolution.rs stops following the history there; nothing is stated.
                return Err(Stop::Skip("operation without recorded predecessors".into()));
            };
            match self.op_log.get(op_id) {
                Some(logged) => {
                    if self.record_checked.insert(op_id.clone()) {
                        for (new, preds) in logged {
                            if recorded.get(new) != Some(preds) {
                                return Err(Stop::Violation(Fail {
                                    clause: "record.logged_rewrite_not_recorded_in_operation".into(),
                                    message: format!(
                                        "operation {} ({:?}): the harness created {} from {:?}, the operation records {:?}",
                                        &op_id.hex()[..12],
                                        op.metadata().description,
                                        &new.hex()[..12],
                                        preds.iter().map(|p| p.hex()[..12].to_owned()).collect::<Vec<_>>(),
                                        recorded.get(new).map(|ps| ps.iter().map(|p| p.hex()[..12].to_owned()).collect::<Vec<_>>())
                                    ),
                                }));
                            }
                        }
                        let logged_keys: HashSet<&CommitId> = logged.iter().map(|(n, _)| n).collect();
                        let extra = recorded.keys().filter(|k| !logged_keys.contains(k)).count();
                        self.ctx.count_n("recorded_commits_unknown_to_harness_log", extra as u64);
                        self.ctx.count_n("edges.recording_checked", logged.len() as u64);
                    }
                    for (new, preds) in logged {
                        add(&mut graph, new, preds, self.ctx);
                    }
                    // Commits the harness did not see being created still belong to the record.
                    for (new, preds) in recorded {
                        if !logged.iter().any(|(n, _)| n == new) {
                            add(&mut graph, new, preds, self.ctx);
                        }
                    }
                }
                None => {
                    // Operation made by jj itself (repo init, merge of concurrent operations).
                    for (new, preds) in recorded {
                        add(&mut graph, new, preds, self.ctx);
                        if op.parent_ids().len() > 1 {
                            self.ctx.count("edges.from_jj_merge_operation");
                        }
                    }
                }
            }
        }
        let label: HashMap<CommitId, String> = graph
            .keys()
            .map(|id| {
                let d = repo.store().get_commit(id).map(|c| c.description().to_owned()).unwrap_or_default();
                (id.clone(), format!("{d}:{}", &id.hex()[..8]))
            })
            .collect();
        let show = |id: &CommitId| label.get(id).cloned().unwrap_or_else(|| id.hex()[..8].to_owned());
        let mut starts: Vec<CommitId> = graph.keys().cloned().collect();
        starts.sort_by_key(|id| show(id));
        rng.shuffle(&mut starts);
        // Prefer commits with history.
        starts.sort_by_key(|id| graph[id].is_empty());
        starts.truncate(max_starts);
        let cap = graph.len() + 8;
        for start in &starts {
            // transitive closure of recorded predecessors
            let mut closure: BTreeSet<CommitId> = BTreeSet::new();
            let mut stack = vec![start.clone()];
            while let Some(id) = stack.pop() {
                if closure.insert(id.clone()) {
                    stack.extend(graph.get(&id).into_iter().flatten().cloned());
                }
            }
            let results: Vec<_> = walk_predecessors(repo, std::slice::from_ref(start)).take(cap + 1).collect::<Vec<_>>().block_on();
            self.walks += 1;
            let mut listed: Vec<CommitId> = vec![];
            for r in &results {
                match r {
                    Ok(entry) => listed.push(entry.commit.id().clone()),
                    Err(e) => {
                        return Err(Stop::Violation(Fail {
                            clause: "walk.error".into(),
                            message: format!("walk from {} failed after {} entries: {e}", show(start), listed.len()),
                        }));
                    }
                }
            }
            let listed_txt = || listed.iter().map(&show).collect::<Vec<_>>();
            if listed.len() > cap {
                return Err(Stop::Violation(Fail {
                    clause: "walk.exceeds_bound".into(),
                    message: format!("walk from {} yields more than {cap} entries ({} commits were ever created): {:?}", show(start), graph.len(), listed_txt()),
                }));
            }
            let mut position: HashMap<&CommitId, usize> = HashMap::new();
            for (k, id) in listed.iter().enumerate() {
                if position.insert(id, k).is_some() {
                    return Err(Stop::Violation(Fail {
                        clause: "walk.lists_commit_twice".into(),
                        message: format!("walk from {} lists {} twice: {:?}", show(start), show(id), listed_txt()),
                    }));
                }
            }
            for id in &closure {
                if !position.contains_key(id) {
                    return Err(Stop::Violation(Fail {
                        clause: "walk.predecessor_missing".into(),
                        message: format!(
                            "walk from {} does not list {}, a recorded (transitive) predecessor; listed {:?}; closure {:?}",
                            show(start),
                            show(id),
                            listed_txt(),
                            closure.iter().map(&show).collect::<Vec<_>>()
                        ),
                    }));
                }
            }
            for id in &listed {
                if !closure.contains(id) {
                    return Err(Stop::Violation(Fail {
                        clause: "walk.lists_unrelated_commit".into(),
                        message: format!("walk from {} lists {} which is not among its recorded predecessors: {:?}", show(start), show(id), listed_txt()),
                    }));
                }
            }
            for (k, id) in listed.iter().enumerate() {
                for p in graph.get(id).into_iter().flatten() {
                    if let Some(pk) = position.get(p)
                        && *pk <= k
                    {
                        return Err(Stop::Violation(Fail {
                            clause: "walk.predecessor_listed_before_successor".into(),
                            message: format!(
                                "walk from {}: {} (position {pk}) is a predecessor of {} (position {k}) but is not listed after it: {:?}",
                                show(start),
                                show(p),
                                show(id),
                                listed_txt()
                            ),
                        }));
                    }
                }
            }
            for r in results.iter().flatten() {
                if r.operation.is_some() {
                    let got: Vec<CommitId> = r.predecessor_ids().to_vec();
                    let want = graph.get(r.commit.id()).cloned().unwrap_or_default();
                    if got.iter().collect::<BTreeSet<_>>() != want.iter().collect::<BTreeSet<_>>() {
                        self.ctx.count("observed.entry_predecessor_ids_differ_from_union_of_records");
                    }
                } else {
                    self.ctx.count("observed.entry_without_operation");
                }
            }
            self.max_closure = self.max_closure.max(closure.len());
            self.ctx.count_n("walk.entries", listed.len() as u64);
            if closure.iter().any(|id| graph.get(id).is_some_and(|p| p.len() > 1)) {
                self.ctx.count("walk.through_multi_predecessor_commit");
            }
            // diamond: some commit reachable along two different paths
            let mut indeg: HashMap<&CommitId, usize> = HashMap::new();
            for id in &closure {
                for p in graph.get(id).into_iter().flatten() {
                    *indeg.entry(p).or_default() += 1;
                }
            }
            if indeg.values().any(|n| *n > 1) {
                self.ctx.count("walk.predecessor_reached_by_two_paths");
            }
        }
        self.ctx.max("max_closure_size", self.max_closure as u64);
        Ok(())
    }
}

pub fn run_c46(ctx: &Ctx) -> i32 {
    ctx.set_rule(
        "Fresh TestRepo per case (1/3 with a fixed commit timestamp so equal rewrites collide); 5..12 steps, \
         each a transaction of 1-3 actions on visible commits (describe-like rewrite, rebase-like rewrite \
         with new parents, squash-like rewrite with two predecessors + abandon, split-like pair with the \
         same predecessor, abandon, two rewrites chained inside one operation, new commit), each followed \
         by rebase_descendants; steps are: plain transaction, 2-3 concurrent transactions from the same \
         repo merged by reload_at_head, a transaction from a stale earlier repo merged by reload_at_head, \
         or an 'op restore' (set_view of an ancestor operation's view). The harness logs every (new -> \
         predecessors) edge it causes, per operation. After steps and at the end, walk_predecessors is run \
         from up to 8 (end: 30) created commits and compared with the log restricted to ancestor \
         operations. Non-trivial: some walk listed >=3 commits and the history had a concurrent merge, a \
         restore, or a multi-predecessor commit. Distinct: by the executed script.",
    );
    ctx.assume("the progress callback of rebase_descendants_with_options reports every rebased commit (used to log the edges of automatically rebased descendants); edges of operations jj creates itself (merge of concurrent operations) are read from the operation store");
    ctx.assume("all operations store predecessors (no legacy operations are generated); evolution.rs documents that the walk stops at legacy operations");
    ctx.assume("predecessors are always commits known to the transaction's base repo (realistic rewrites); a commit recorded as successor of a commit created by a concurrent, unmerged operation is not generated");
    let n_cases = ctx.tier().pick(700, 40_000);
    par_cases(ctx, n_cases, threads(), |i, cs, rng| {
        let fixed_time = rng.chance(1, 3);
        let n_steps = rng.range(5, 12);
        let mut evo = Evo {
            ctx,
            op_log: HashMap::new(),
            record_checked: HashSet::new(),
            repos: vec![],
            counter: 0,
            script: vec![],
            features: BTreeSet::new(),
            max_closure: 0,
            walks: 0,
        };
        let script_cell: std::cell::RefCell<Vec<String>> = std::cell::RefCell::new(vec![]);
        let mut outcome: Option<Stop> = None;
        run_case(ctx, i, cs, || json!({"fixed_time": fixed_time, "script": script_cell.borrow().clone()}), || {
            let settings = evo_settings(fixed_time);
            let test_repo = TestRepo::init_with_settings(&settings);
            let mut body = || -> Result<(), Stop> {
                let mut cur = test_repo.repo.clone();
                evo.repos.push(cur.clone());
                // seed
                cur = evo.run_tx(rng, &cur, "seed")?;
                cur = evo.run_tx(rng, &cur, "seed")?;
                evo.repos.push(cur.clone());
                for step in 0..n_steps {
                    match rng.weighted(&[5, 3, 2, 2]) {
                        0 => {
                            evo.script.push(format!("-- step {step}: transaction"));
                            cur = evo.run_tx(rng, &cur, "tx")?;
                        }
                        1 => {
                            let k = if rng.chance(1, 4) { 3 } else { 2 };
                            evo.script.push(format!("-- step {step}: {k} concurrent transactions"));
                            for j in 0..k {
                                evo.script.push(format!("-- side {j}"));
                                evo.run_tx(rng, &cur, "concurrent")?;
                            }
                            cur = unmonitored("reload_at_head", || cur.reload_at_head().block_on().map_err(|e| format!("{e}")))?;
                            evo.features.insert("concurrent");
                        }
                        2 => {
                            let base = evo.repos[rng.below(evo.repos.len())].clone();
                            evo.script.push(format!("-- step {step}: transaction on a stale repo"));
                            let stale = base.op_id() != cur.op_id();
                            let repo = evo.run_tx(rng, &base, "stale")?;
                            if stale {
                                cur = unmonitored("reload_at_head", || cur.reload_at_head().block_on().map_err(|e| format!("{e}")))?;
                                evo.features.insert("stale_base");
                            } else {
                                cur = repo;
                            }
                        }
                        _ => {
                            let ops = evo.op_ancestors(&cur)?;
                            let mut candidates: Vec<&Operation> = ops
                                .values()
                                .filter(|op| op.id() != cur.op_id() && evo.op_log.contains_key(op.id()))
                                .collect();
                            candidates.sort_by_key(|op| op.id().clone());
                            if candidates.is_empty() {
                                continue;
                            }
                            // op ids depend on timestamps; choose by position in the harness' own order
                            let order: Vec<OperationId> = evo.repos.iter().map(|r| r.op_id().clone()).collect();
                            candidates.sort_by_key(|op| order.iter().position(|o| o == op.id()).unwrap_or(usize::MAX));
                            let target = candidates[rng.below(candidates.len())].clone();
                            evo.script.push(format!("-- step {step}: restore to an ancestor operation ({:?})", target.metadata().description));
                            let view = target.view().block_on().map_err(|e| Stop::Skip(format!("op.view: {e}")))?;
                            let mut tx = cur.start_transaction();
                            tx.repo_mut().set_view(view.store_view().clone());
                            cur = unmonitored("restore commit", || tx.commit("restore").block_on().map_err(|e| format!("{e}")))?;
                            evo.op_log.insert(cur.op_id().clone(), vec![]);
                            evo.features.insert("restore");
                        }
                    }
                    evo.repos.push(cur.clone());
                    *script_cell.borrow_mut() = evo.script.clone();
                    if rng.chance(1, 2) {
                        evo.check(rng, &cur, 8)?;
                    }
                }
                evo.check(rng, &cur, 30)?;
                // Also at an earlier operation, loaded afresh.
                let earlier = evo.repos[rng.below(evo.repos.len())].clone();
                let reloaded = cur
                    .loader()
                    .load_at(earlier.operation())
                    .block_on()
                    .map_err(|e| Stop::Skip(format!("load_at: {e}")))?;
                evo.check(rng, &reloaded, 12)?;
                Ok(())
            };
            let result = body();
            *script_cell.borrow_mut() = evo.script.clone();
            match result {
                Ok(()) => Ok(()),
                Err(Stop::Violation(f)) => Err(f),
                Err(Stop::Skip(reason)) => {
                    if std::env::var("C46_DEBUG").is_ok() {
                        eprintln!("case {i} ended early: {reason}\n{}", evo.script.join("\n"));
                    }
                    outcome = Some(Stop::Skip(reason));
                    Ok(())
                }
            }
        });
        if let Some(Stop::Skip(reason)) = &outcome {
            let key: String = if reason.contains("already exists") {
                format!("{}: newly created commit already exists", reason.split(':').next().unwrap_or(""))
            } else {
                reason.chars().take(70).collect()
            };
            ctx.count(&format!("case_ended_early.{key}"));
        }
        for f in &evo.features {
            ctx.count(&format!("history_with.{f}"));
        }
        ctx.count_n("walks", evo.walks);
        let interesting = evo.features.iter().any(|f| matches!(*f, "concurrent" | "stale_base" | "restore" | "squash"));
        let nontrivial = evo.max_closure >= 3 && interesting && evo.walks > 0;
        ctx.case(stable_hash(&(fixed_time, &evo.script)), nontrivial);
        if nontrivial && ctx.wants_sample() {
            ctx.sample(|| json!({"fixed_time": fixed_time, "script": evo.script, "max_closure": evo.max_closure}));
        }
    });
    ctx.finish(ctx.tier().pick(250, 15_000))
}
