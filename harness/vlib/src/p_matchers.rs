//! C30 (matcher directory pruning is sound) and C31 (fileset semantics).

use std::collections::BTreeSet;
use std::path::PathBuf;

use jj_lib::fileset;
use jj_lib::fileset::FilePattern;
use jj_lib::fileset::FilesetAliasesMap;
use jj_lib::fileset::FilesetDiagnostics;
use jj_lib::fileset::FilesetExpression;
use jj_lib::fileset::FilesetParseContext;
use jj_lib::matchers::DifferenceMatcher;
use jj_lib::matchers::EverythingMatcher;
use jj_lib::matchers::FilesMatcher;
use jj_lib::matchers::IntersectionMatcher;
use jj_lib::matchers::Matcher;
use jj_lib::matchers::NothingMatcher;
use jj_lib::matchers::PrefixMatcher;
use jj_lib::matchers::UnionMatcher;
use jj_lib::matchers::Visit;
use jj_lib::matchers::VisitDirs;
use jj_lib::matchers::VisitFiles;
use jj_lib::repo_path::RepoPath;
use jj_lib::repo_path::RepoPathBuf;
use jj_lib::repo_path::RepoPathUiConverter;
use serde_json::json;

use crate::common::*;
use crate::ensure;

const COMPONENTS: &[&str] = &["a", "b", "src", "x.rs", "y.txt", "A", "B.RS", "ab", "é", "a.b"];

fn gen_path(rng: &mut Rng, max_depth: usize) -> String {
    let depth = rng.range(1, max_depth);
    (0..depth)
        .map(|_| *rng.pick(COMPONENTS))
        .collect::<Vec<_>>()
        .join("/")
}

fn rp(s: &str) -> RepoPathBuf {
    RepoPathBuf::from_internal_string(s).unwrap()
}

// ---------------------------------------------------------------------------
// Reference glob matcher (definition: `*`/`?` do not cross '/', `**` as a
// whole component matches any number of components, `[set]`, `{a,b}`).

fn seg_match(pat: &[u8], text: &[u8], icase: bool) -> bool {
    // Byte-wise, like the regex (?-u) automaton jj compiles globs to: `?` and a
    // `[set]` consume exactly one byte, so they never match a multi-byte
    // character (documented limit of the restricted reference, DESIGN C31).
    fn eq(a: u8, b: u8, icase: bool) -> bool {
        if icase {
            a.to_ascii_lowercase() == b.to_ascii_lowercase()
        } else {
            a == b
        }
    }
    if pat.is_empty() {
        return text.is_empty();
    }
    match pat[0] {
        b'*' => (0..=text.len()).any(|k| seg_match(&pat[1..], &text[k..], icase)),
        b'?' => !text.is_empty() && seg_match(&pat[1..], &text[1..], icase),
        b'[' => {
            let close = pat.iter().position(|c| *c == b']').unwrap();
            let set = &pat[1..close];
            !text.is_empty()
                && set.iter().any(|c| eq(*c, text[0], icase))
                && seg_match(&pat[close + 1..], &text[1..], icase)
        }
        b'{' => {
            let close = pat.iter().position(|c| *c == b'}').unwrap();
            let alts = pat[1..close].to_vec();
            alts.split(|c| *c == b',').any(|alt| {
                let mut p: Vec<u8> = alt.to_vec();
                p.extend_from_slice(&pat[close + 1..]);
                seg_match(&p, text, icase)
            })
        }
        c => !text.is_empty() && eq(c, text[0], icase) && seg_match(&pat[1..], &text[1..], icase),
    }
}

fn glob_match_components(pat: &[&str], path: &[&str], icase: bool) -> bool {
    if pat.is_empty() {
        return path.is_empty();
    }
    if pat[0] == "**" {
        if pat.len() == 1 {
            // trailing `/**`: at least one component below
            return !path.is_empty();
        }
        return (0..=path.len()).any(|k| glob_match_components(&pat[1..], &path[k..], icase));
    }
    if path.is_empty() {
        return false;
    }
    seg_match(pat[0].as_bytes(), path[0].as_bytes(), icase) && glob_match_components(&pat[1..], &path[1..], icase)
}

// ---------------------------------------------------------------------------
// Reference fileset model

#[derive(Clone, Debug, Hash)]
enum Pat {
    /// exact path (workspace relative, normalized)
    File(String),
    Prefix(String),
    /// dir (normalized, case-sensitive) + glob relative to it
    Glob { dir: String, pat: String, icase: bool, prefix: bool },
}

#[derive(Clone, Debug, Hash)]
enum Expr {
    All,
    None,
    Pat { kind: String, text: String, model: Pat },
    Not(Box<Expr>),
    And(Box<Expr>, Box<Expr>),
    Diff(Box<Expr>, Box<Expr>),
    Or(Vec<Expr>),
}

fn is_under(path: &str, dir: &str) -> Option<String> {
    if dir.is_empty() {
        Some(path.to_owned())
    } else if path == dir {
        Some(String::new())
    } else {
        path.strip_prefix(dir)
            .and_then(|rest| rest.strip_prefix('/'))
            .map(|s| s.to_owned())
    }
}

fn pat_matches(p: &Pat, path: &str) -> bool {
    match p {
        Pat::File(f) => path == f,
        Pat::Prefix(f) => is_under(path, f).is_some(),
        Pat::Glob { dir, pat, icase, prefix } => {
            let Some(rest) = is_under(path, dir) else {
                return false;
            };
            if rest.is_empty() {
                return false;
            }
            let pc: Vec<&str> = pat.split('/').collect();
            let tc: Vec<&str> = rest.split('/').collect();
            if *prefix {
                (1..=tc.len()).any(|k| glob_match_components(&pc, &tc[..k], *icase))
            } else {
                glob_match_components(&pc, &tc, *icase)
            }
        }
    }
}

fn eval(e: &Expr, path: &str) -> bool {
    match e {
        Expr::All => true,
        Expr::None => false,
        Expr::Pat { model, .. } => pat_matches(model, path),
        Expr::Not(x) => !eval(x, path),
        Expr::And(a, b) => eval(a, path) && eval(b, path),
        Expr::Diff(a, b) => eval(a, path) && !eval(b, path),
        Expr::Or(xs) => xs.iter().any(|x| eval(x, path)),
    }
}

fn quote(s: &str) -> String {
    format!("\"{}\"", s.replace('\\', "\\\\").replace('"', "\\\""))
}

fn render(e: &Expr, full_parens: bool, parent_prec: u8) -> String {
    // precedence: 3 = prefix ~, 2 = & and ~ (left assoc), 1 = |
    let (text, prec) = match e {
        Expr::All => ("all()".to_owned(), 9),
        Expr::None => ("none()".to_owned(), 9),
        Expr::Pat { kind, text, .. } => (format!("{kind}:{}", quote(text)), 9),
        Expr::Not(x) => (format!("~{}", render(x, full_parens, 3)), 3),
        Expr::And(a, b) => (
            format!("{} & {}", render(a, full_parens, 2), render(b, full_parens, 3)),
            2,
        ),
        Expr::Diff(a, b) => (
            format!("{} ~ {}", render(a, full_parens, 2), render(b, full_parens, 3)),
            2,
        ),
        Expr::Or(xs) => (
            xs.iter()
                .map(|x| render(x, full_parens, 2))
                .collect::<Vec<_>>()
                .join(" | "),
            1,
        ),
    };
    if prec < 9 && (full_parens || prec < parent_prec) {
        format!("({text})")
    } else {
        text
    }
}

fn normalize_join(cwd: &str, input: &str) -> Option<String> {
    let mut comps: Vec<&str> = if cwd.is_empty() { vec![] } else { cwd.split('/').collect() };
    for c in input.split('/') {
        match c {
            "" | "." => {}
            ".." => {
                comps.pop()?;
            }
            c => comps.push(c),
        }
    }
    Some(comps.join("/"))
}

fn gen_glob(rng: &mut Rng) -> String {
    let n = rng.range(1, 3);
    let mut comps: Vec<String> = vec![];
    for _ in 0..n {
        let c = match rng.below(9) {
            0 => "*".to_owned(),
            1 => "*.rs".to_owned(),
            2 => "?".to_owned(),
            3 => "[ab]".to_owned(),
            4 => "{a,src}".to_owned(),
            5 => "**".to_owned(),
            6 => "a*".to_owned(),
            7 => "*b".to_owned(),
            _ => (*rng.pick(COMPONENTS)).to_owned(),
        };
        comps.push(c);
    }
    // A lone `**` is not in the restricted forms: append a component.
    if comps.len() == 1 && comps[0] == "**" {
        comps.push("*".to_owned());
    }
    // Avoid `**` adjacent to `**`.
    comps.dedup_by(|a, b| a == "**" && b == "**");
    // Make sure it contains a glob char so the dir split is predictable.
    if !comps.iter().any(|c| c.contains(['*', '?', '[', '{'])) {
        comps.push("*".to_owned());
    }
    comps.join("/")
}

/// Splits `input` like jj documents: literal leading components go to `dir`.
fn split_glob(input: &str, icase: bool) -> (String, String) {
    let comps: Vec<&str> = input.split('/').collect();
    let is_literal = |c: &str| {
        !c.contains(['*', '?', '[', ']', '{', '}', '\\'])
            && !(icase && c.chars().any(|ch| ch.is_ascii_alphabetic()))
    };
    let k = comps.iter().take_while(|c| is_literal(c)).count();
    // The last component is never consumed as a directory if it would leave
    // nothing, jj then treats the whole as a plain path; the generator always
    // has a glob char so k < len.
    (comps[..k].join("/"), comps[k..].join("/"))
}

fn gen_pattern(rng: &mut Rng, cwd: &str) -> Option<Expr> {
    let kinds = [
        "cwd", "file", "cwd-file", "glob", "cwd-glob", "glob-i", "prefix-glob", "prefix-glob-i",
        "root", "root-file", "root-glob", "root-glob-i", "root-prefix-glob", "root-prefix-glob-i",
    ];
    let kind = *rng.pick(&kinds);
    let is_root = kind.starts_with("root");
    let is_glob = kind.contains("glob");
    let base = if is_root { "" } else { cwd };
    if !is_glob {
        let mut text = gen_path(rng, 3);
        if !is_root {
            match rng.below(6) {
                0 => text = format!("./{text}"),
                1 if !cwd.is_empty() => text = format!("../{text}"),
                2 => text = text.replace('/', "//"),
                _ => {}
            }
        }
        let norm = normalize_join(base, &text)?;
        let model = if kind == "cwd" || kind == "root" {
            Pat::Prefix(norm)
        } else {
            Pat::File(norm)
        };
        return Some(Expr::Pat { kind: kind.to_owned(), text, model });
    }
    let icase = kind.ends_with("-i");
    let prefix = kind.contains("prefix-glob");
    let mut text = gen_glob(rng);
    if rng.chance(1, 3) {
        text = format!("{}/{}", rng.pick(COMPONENTS), text);
    }
    if !is_root && !cwd.is_empty() && rng.chance(1, 6) {
        text = format!("../{text}");
    }
    let (dir, pat) = split_glob(&text, icase);
    let dir = normalize_join(base, &dir)?;
    Some(Expr::Pat {
        kind: kind.to_owned(),
        text,
        model: Pat::Glob { dir, pat, icase, prefix },
    })
}

fn gen_expr(rng: &mut Rng, cwd: &str, depth: usize) -> Expr {
    if depth == 0 || rng.chance(2, 5) {
        return match rng.below(12) {
            0 => Expr::All,
            1 => Expr::None,
            _ => loop {
                if let Some(p) = gen_pattern(rng, cwd) {
                    break p;
                }
            },
        };
    }
    match rng.below(5) {
        0 => Expr::Not(Box::new(gen_expr(rng, cwd, depth - 1))),
        1 => Expr::And(
            Box::new(gen_expr(rng, cwd, depth - 1)),
            Box::new(gen_expr(rng, cwd, depth - 1)),
        ),
        2 => Expr::Diff(
            Box::new(gen_expr(rng, cwd, depth - 1)),
            Box::new(gen_expr(rng, cwd, depth - 1)),
        ),
        _ => Expr::Or((0..rng.range(2, 4)).map(|_| gen_expr(rng, cwd, depth - 1)).collect()),
    }
}

fn collect_paths(e: &Expr, out: &mut BTreeSet<String>) {
    match e {
        Expr::Pat { model, .. } => match model {
            Pat::File(p) | Pat::Prefix(p) => {
                if !p.is_empty() {
                    out.insert(p.clone());
                }
            }
            Pat::Glob { dir, .. } => {
                if !dir.is_empty() {
                    out.insert(dir.clone());
                }
            }
        },
        Expr::Not(x) => collect_paths(x, out),
        Expr::And(a, b) | Expr::Diff(a, b) => {
            collect_paths(a, out);
            collect_paths(b, out);
        }
        Expr::Or(xs) => xs.iter().for_each(|x| collect_paths(x, out)),
        _ => {}
    }
}

fn universe(rng: &mut Rng, mentioned: &BTreeSet<String>) -> Vec<String> {
    let mut u: BTreeSet<String> = mentioned.clone();
    for _ in 0..60 {
        u.insert(gen_path(rng, 4));
    }
    for m in mentioned {
        for c in COMPONENTS.iter().take(5) {
            u.insert(format!("{m}/{c}"));
            u.insert(format!("{m}/{c}/x.rs"));
        }
        u.insert(format!("{m}x"));
        if let Some((parent, _)) = m.rsplit_once('/') {
            u.insert(format!("{parent}/zz"));
            u.insert(parent.to_owned());
        }
        u.insert(m.to_ascii_uppercase());
        u.insert(m.to_ascii_lowercase());
    }
    u.into_iter().filter(|p| !p.is_empty()).collect()
}

/// C30 oracle for one matcher over a universe of paths.
pub fn check_visit(matcher: &dyn Matcher, universe: &[String]) -> Result<(u64, u64), Fail> {
    let mut matching = 0;
    let mut dirs: BTreeSet<String> = BTreeSet::new();
    dirs.insert(String::new());
    for p in universe {
        let comps: Vec<&str> = p.split('/').collect();
        for k in 1..comps.len() {
            dirs.insert(comps[..k].join("/"));
        }
        // every path may also be walked as a directory
        dirs.insert(p.clone());
    }
    for p in universe {
        let path = rp(p);
        if !matcher.matches(&path) {
            continue;
        }
        matching += 1;
        let comps: Vec<&str> = p.split('/').collect();
        for k in 0..comps.len() {
            let dir = comps[..k].join("/");
            let next = comps[k];
            let is_file = k + 1 == comps.len();
            match matcher.visit(&rp(&dir)) {
                Visit::Nothing => {
                    return Err(Fail {
                        clause: "visit.never_skips_dir_with_match".into(),
                        message: format!(
                            "{p:?} matches but visit({dir:?}) = Nothing; matcher {matcher:?}"
                        ),
                    });
                }
                Visit::AllRecursively => {}
                Visit::Specific { dirs, files } => {
                    let listed = if is_file {
                        match &files {
                            VisitFiles::All => true,
                            VisitFiles::Set(s) => s.iter().any(|c| c.as_internal_str() == next),
                        }
                    } else {
                        match &dirs {
                            VisitDirs::All => true,
                            VisitDirs::Set(s) => s.iter().any(|c| c.as_internal_str() == next),
                        }
                    };
                    ensure!(
                        listed,
                        "visit.specific_lists_matching_child",
                        "{:?} matches but visit({:?}) = Specific without {} {:?}; matcher {:?}",
                        p,
                        dir,
                        if is_file { "file" } else { "dir" },
                        next,
                        matcher
                    );
                }
            }
        }
    }
    let mut all_recursive = 0;
    for d in &dirs {
        if matcher.visit(&rp(d)) == Visit::AllRecursively {
            all_recursive += 1;
            for p in universe {
                if let Some(rest) = is_under(p, d)
                    && !rest.is_empty()
                {
                    ensure!(
                        matcher.matches(&rp(p)),
                        "visit.all_recursively_means_all_match",
                        "visit({:?}) = AllRecursively but {:?} does not match; matcher {:?}",
                        d,
                        p,
                        matcher
                    );
                }
            }
        }
    }
    Ok((matching, all_recursive))
}

fn pattern_of(e: &Expr) -> Option<FilePattern> {
    // Build the jj pattern through the public constructors (root-relative,
    // from the normalized model) so that C30 does not depend on parsing.
    let Expr::Pat { model, .. } = e else { return None };
    Some(match model {
        Pat::File(p) => FilePattern::FilePath(rp(p)),
        Pat::Prefix(p) => FilePattern::PrefixPath(rp(p)),
        Pat::Glob { dir, pat, icase, prefix } => {
            let full = if dir.is_empty() { pat.clone() } else { format!("{dir}/{pat}") };
            match (prefix, icase) {
                (false, false) => FilePattern::root_file_glob(&full).ok()?,
                (false, true) => FilePattern::root_file_glob_i(&full).ok()?,
                (true, false) => FilePattern::root_prefix_glob(&full).ok()?,
                (true, true) => FilePattern::root_prefix_glob_i(&full).ok()?,
            }
        }
    })
}

/// Builds a matcher tree with the explicit combinators.
fn build_matcher(e: &Expr, rng: &mut Rng) -> Box<dyn Matcher> {
    match e {
        Expr::All => Box::new(EverythingMatcher),
        Expr::None => Box::new(NothingMatcher),
        Expr::Pat { model, .. } => match model {
            Pat::File(p) if rng.bool() => Box::new(FilesMatcher::new([rp(p)])),
            Pat::Prefix(p) if rng.bool() => Box::new(PrefixMatcher::new([rp(p)])),
            _ => match pattern_of(e) {
                Some(p) => FilesetExpression::pattern(p).to_matcher(),
                None => Box::new(NothingMatcher),
            },
        },
        Expr::Not(x) => Box::new(DifferenceMatcher::new(
            Box::new(EverythingMatcher) as Box<dyn Matcher>,
            build_matcher(x, rng),
        )),
        Expr::And(a, b) => Box::new(IntersectionMatcher::new(
            build_matcher(a, rng),
            build_matcher(b, rng),
        )),
        Expr::Diff(a, b) => Box::new(DifferenceMatcher::new(
            build_matcher(a, rng),
            build_matcher(b, rng),
        )),
        Expr::Or(xs) => {
            // Leaves of the same kind are sometimes merged into one multi-path matcher.
            if xs.iter().all(|x| matches!(x, Expr::Pat { .. })) && rng.bool() {
                let pats: Vec<FilesetExpression> = xs
                    .iter()
                    .filter_map(pattern_of)
                    .map(FilesetExpression::pattern)
                    .collect();
                if pats.len() == xs.len() {
                    return FilesetExpression::union_all(pats).to_matcher();
                }
            }
            let mut it = xs.iter();
            let mut m = build_matcher(it.next().unwrap(), rng);
            for x in it {
                m = Box::new(UnionMatcher::new(m, build_matcher(x, rng)));
            }
            m
        }
    }
}

pub fn run_c30(ctx: &Ctx) -> i32 {
    ctx.set_rule(
        "random matcher trees (Files, Prefix, file/prefix Globs incl. case-insensitive, Everything, \
         Nothing under Union/Intersection/Difference, depth<=5) built with the explicit combinators \
         and via FilesetExpression::to_matcher; universe = 60 random paths over a 10-component \
         alphabet (depth<=4) + paths named by the matchers + one-component perturbations and case \
         variants; every ancestor directory of every matching path is visited. Non-trivial: the \
         tree has a combinator and at least one universe path matches. Distinct: by expression.",
    );
    let n = ctx.tier().pick(200_000, 2_000_000);
    par_cases(ctx, n, threads(), |i, cs, rng| {
        let depth = rng.range(1, 5);
        let e = gen_expr(rng, "", depth);
        let mut mentioned = BTreeSet::new();
        collect_paths(&e, &mut mentioned);
        let uni = universe(rng, &mentioned);
        let matcher = build_matcher(&e, rng);
        let via_fileset = rng.chance(1, 3);
        let mut stats = (0, 0);
        run_case(ctx, i, cs, || json!({"expr": render(&e, true, 0), "universe": uni}), || {
            stats = check_visit(matcher.as_ref(), &uni)?;
            // The matcher must also agree with the reference semantics (ties C30 to C31).
            for p in &uni {
                ensure!(
                    matcher.matches(&rp(p)) == eval(&e, p),
                    "matches.reference",
                    "{:?}: matcher says {}, reference says {} for {}",
                    p,
                    matcher.matches(&rp(p)),
                    eval(&e, p),
                    render(&e, true, 0)
                );
            }
            if via_fileset {
                // Same tree compiled by jj's own optimiser.
                if let Some(fe) = to_fileset(&e) {
                    let m2 = fe.to_matcher();
                    check_visit(m2.as_ref(), &uni)?;
                }
            }
            Ok(())
        });
        let combinator = !matches!(e, Expr::Pat { .. } | Expr::All | Expr::None);
        ctx.case(stable_hash(&e), combinator && stats.0 > 0);
        ctx.count_n("matching_paths_checked", stats.0);
        ctx.count_n("all_recursively_dirs_checked", stats.1);
        if combinator && stats.0 > 0 {
            ctx.sample(|| json!({"expr": render(&e, true, 0), "matching": stats.0, "universe_size": uni.len()}));
        }
    });
    ctx.finish(500)
}

fn to_fileset(e: &Expr) -> Option<FilesetExpression> {
    Some(match e {
        Expr::All => FilesetExpression::all(),
        Expr::None => FilesetExpression::none(),
        Expr::Pat { .. } => FilesetExpression::pattern(pattern_of(e)?),
        Expr::Not(x) => FilesetExpression::all().difference(to_fileset(x)?),
        Expr::And(a, b) => to_fileset(a)?.intersection(to_fileset(b)?),
        Expr::Diff(a, b) => to_fileset(a)?.difference(to_fileset(b)?),
        Expr::Or(xs) => {
            FilesetExpression::union_all(xs.iter().map(to_fileset).collect::<Option<Vec<_>>>()?)
        }
    })
}

pub fn run_c31(ctx: &Ctx) -> i32 {
    ctx.set_rule(
        "random fileset ASTs (all 14 spellings of the 12 pattern kinds, all(), none(), ~x, x&y, x~y, \
         x|y, depth<=4) rendered to text fully parenthesised or with minimal parentheses, parsed by \
         fileset::parse from a random cwd inside the workspace (inputs with ./ ../ and doubled \
         separators); globs restricted to * ? [set] {a,b} and whole-component **. Reference: exact \
         / prefix / small glob matcher with ASCII case folding over the path universe. \
         Non-trivial: contains an operator and the universe has both matching and non-matching paths. \
         Distinct: by (text, cwd).",
    );
    let n = ctx.tier().pick(200_000, 2_000_000);
    let base = PathBuf::from("/ws");
    par_cases(ctx, n, threads(), |i, cs, rng| {
        let cwd = match rng.below(4) {
            0 => String::new(),
            1 => (*rng.pick(COMPONENTS)).to_owned(),
            _ => gen_path(rng, 2),
        };
        let depth = rng.range(0, 4);
        let e = gen_expr(rng, &cwd, depth);
        let full = rng.chance(2, 3);
        let text = render(&e, full, 0);
        let mut mentioned = BTreeSet::new();
        collect_paths(&e, &mut mentioned);
        if !cwd.is_empty() {
            mentioned.insert(cwd.clone());
        }
        let uni = universe(rng, &mentioned);
        let converter = RepoPathUiConverter::Fs {
            cwd: if cwd.is_empty() { base.clone() } else { base.join(&cwd) },
            base: base.clone(),
        };
        let mut both = (0u64, 0u64);
        run_case(ctx, i, cs, || json!({"text": text, "cwd": cwd, "universe": uni}), || {
            let aliases = FilesetAliasesMap::new();
            let context = FilesetParseContext { aliases_map: &aliases, path_converter: &converter };
            let mut diagnostics = FilesetDiagnostics::new();
            let parsed = match fileset::parse(&mut diagnostics, &text, &context) {
                Ok(p) => p,
                Err(err) => {
                    return fail(
                        "parse.accepts_generated_expression",
                        format!("{text:?} from cwd {cwd:?} failed to parse: {err}"),
                    );
                }
            };
            let matcher = parsed.to_matcher();
            for p in &uni {
                let got = matcher.matches(&rp(p));
                let want = eval(&e, p);
                if want {
                    both.0 += 1;
                } else {
                    both.1 += 1;
                }
                ensure!(
                    got == want,
                    "fileset.matches_definition",
                    "{:?} from cwd {:?}: path {:?} matched={} but the definition says {}",
                    text,
                    cwd,
                    p,
                    got,
                    want
                );
            }
            Ok(())
        });
        let has_op = !matches!(e, Expr::Pat { .. } | Expr::All | Expr::None);
        ctx.case(stable_hash(&(&text, &cwd)), has_op && both.0 > 0 && both.1 > 0);
        ctx.count_n("path_evaluations", both.0 + both.1);
        if let Expr::Pat { kind, .. } = &e {
            ctx.count(&format!("kind_{kind}"));
        }
        if !full {
            ctx.count("minimal_parentheses_rendering");
        }
        if has_op && both.0 > 0 && both.1 > 0 {
            ctx.sample(|| json!({"text": text, "cwd": cwd, "matching": both.0, "non_matching": both.1}));
        }
    });
    ctx.finish(500)
}

#[allow(dead_code)]
fn _unused(_: &RepoPath) {}
