//! C40, C41, C42: monitors that drive the hooked `jj` binary with random
//! command sequences over a small repository (git backend, 1-2 workspaces)
//! interleaved with random file edits, and check the outcome offline through
//! the read-only repo reader.
//!
//! Common workload. One hermetic `JjEnv` per sequence. Before every command
//! the generator lists the commits that exist at that moment (`jj log -r
//! 'all()' --ignore-working-copy`) and addresses them by change id, commit id
//! or symbol (`@`, `@-`, `<workspace>@`, bookmark names), so most commands are
//! applicable; commands are nevertheless allowed to FAIL (ambiguous change
//! ids, immutable targets, stale working copies, "nothing to redo", ...).
//! File edits use a small path universe (with file<->directory swaps) and
//! contents built from a pool of six lines so merges and conflicts happen.
//! Only non-interactive command forms are used (`-m`,
//! `--use-destination-message`, paths for `split`; the env sets
//! `ui.editor=true`).
//!
//! * C40 (no working-copy change is lost): before each command the disk state
//!   `D` of every workspace directory is recorded; after it every `(path,
//!   bytes)` of `D` must still be on disk or be contained in the working-copy
//!   commit of that workspace recorded by *some* operation in the log (any
//!   term of a conflicted entry counts).
//! * C41 (undo / redo / op restore / op revert): structured views from the
//!   reader, expected target computed from the operation log by our own
//!   implementation of the documented undo/redo stack rule.
//! * C42 (immutable commits are never rewritten): immutable set evaluated
//!   before each command, must stay visible after it.
//!
//! Weaker-than-DESIGN predicates (soundness notes) are marked `SOUNDNESS:`.

use std::cell::RefCell;
use std::collections::BTreeMap;
use std::collections::BTreeSet;
use std::collections::HashMap;
use std::collections::HashSet;
use std::path::Path;
use std::path::PathBuf;
use std::rc::Rc;
use std::sync::Arc;

use jj_lib::backend::CommitId;
use jj_lib::object_id::ObjectId as _;
use jj_lib::operation::Operation;
use jj_lib::repo::ReadonlyRepo;
use jj_lib::repo::Repo as _;
use serde_json::json;

use crate::common::*;
use crate::driver::*;
use crate::ensure;
use crate::reader::RepoReader;
use crate::reader::ViewSummary;
use crate::reader::repo_dir_of_workspace;

// ---------------------------------------------------------------------------
// Universe

const PATHS: &[&str] = &["a", "b", "d/e", "d/f", "d", "g/h", "k"];
const LINES: &[&str] = &["alpha", "beta", "gamma", "delta", "epsilon", "zeta"];
const BOOKMARKS: &[&str] = &["bm1", "bm2", "main"];
const TAGS: &[&str] = &["t1", "t2"];
const MESSAGES: &[&str] = &["work", "imm one", "fix", "imm two", "wip", "more"];
const UNDO_PREFIX: &str = "undo: restore to operation ";
const REDO_PREFIX: &str = "redo: restore to operation ";
const RESTORE_PREFIX: &str = "restore to operation ";
const REVERT_PREFIX: &str = "revert operation ";

#[derive(Clone, Copy, Debug, PartialEq, Eq)]
enum Prop {
    C40,
    C41,
    C42,
}

impl Prop {
    fn name(self) -> &'static str {
        match self {
            Self::C40 => "c40",
            Self::C41 => "c41",
            Self::C42 => "c42",
        }
    }
}

/// `ui.diff-editor` used by `jj diffedit`: appends a line to every file of the
/// right-hand side.
const DIFFEDIT_TOOL: &str = r#"ui.diff-editor=["sh","-c",'find "$0" -type f ! -name JJ-INSTRUCTIONS | while read f; do echo edited >> "$f"; done',"$right"]"#;

/// (kind, weight) per property. Kinds that are not applicable at the moment
/// (e.g. `ws_add` when the second workspace exists) are filtered out.
fn weights(prop: Prop) -> Vec<(&'static str, usize)> {
    match prop {
        Prop::C40 => vec![
            ("status", 3),
            ("new", 8),
            ("new_insert", 2),
            ("edit", 8),
            ("describe", 5),
            ("commit", 6),
            ("squash", 6),
            ("split", 4),
            ("abandon", 6),
            ("rebase", 6),
            ("restore", 6),
            ("duplicate", 1),
            ("absorb", 1),
            ("next_prev", 2),
            ("bookmark_create", 1),
            ("undo", 7),
            ("redo", 2),
            ("op_restore", 6),
            ("op_revert", 2),
            ("ws_add", 8),
            ("update_stale", 3),
            ("ws_forget", 1),
            ("touch_other", 6),
        ],
        Prop::C41 => vec![
            ("status", 1),
            ("new", 6),
            ("edit", 4),
            ("describe", 5),
            ("commit", 4),
            ("squash", 3),
            ("split", 2),
            ("abandon", 4),
            ("rebase", 4),
            ("restore", 2),
            ("duplicate", 1),
            ("bookmark_create", 4),
            ("bookmark_move", 3),
            ("bookmark_set", 2),
            ("bookmark_delete", 2),
            ("tag_set", 3),
            ("tag_delete", 2),
            ("undo", 14),
            ("redo", 2),
            ("op_restore", 9),
            ("op_revert", 8),
            ("ws_add", 3),
            ("update_stale", 1),
            ("protect_other", 4),
        ],
        Prop::C42 => vec![
            ("new", 5),
            ("new_insert", 4),
            ("edit", 5),
            ("describe", 8),
            ("commit", 3),
            ("squash", 6),
            ("split", 3),
            ("abandon", 8),
            ("rebase", 8),
            ("restore", 5),
            ("duplicate", 2),
            ("parallelize", 2),
            ("absorb", 2),
            ("metaedit", 3),
            ("simplify", 1),
            ("chmod", 2),
            ("revert", 2),
            ("diffedit", 4),
            ("fix", 2),
            ("resolve", 1),
            ("sign", 2),
            ("next_prev", 2),
            ("bookmark_create", 5),
            ("bookmark_move", 3),
            ("bookmark_set", 2),
            ("bookmark_delete", 1),
            ("tag_set", 4),
            ("tag_delete", 1),
            ("ws_add", 3),
            ("ws_forget", 1),
            ("update_stale", 1),
            ("protect_other", 6),
        ],
    }
}

#[derive(Clone, Debug)]
struct Cmd {
    ws: usize,
    kind: &'static str,
    args: Vec<String>,
    at_op: bool,
    ignore_immutable: bool,
    /// no file edits before this command (planned follow-up command)
    quiet: bool,
}

#[derive(Clone, Debug)]
struct CommitInfo {
    id: String,
    change: String,
    immutable: bool,
    empty: bool,
    root: bool,
    described: bool,
}

struct Wsp {
    name: &'static str,
    dir: PathBuf,
    created: bool,
    forgotten: bool,
    stale: bool,
    force_edit: bool,
    /// path -> bytes that jj itself wrote there (checkout) and that we have
    /// not touched since.
    jj_written: BTreeMap<String, Vec<u8>>,
    /// paths where the last thing jj wrote was the textual placeholder of a
    /// conflict that cannot be materialized with markers (file vs directory
    /// etc.: "Conflict:\n  Removing file with id ...").
    placeholder_paths: BTreeSet<String>,
}

type Disk = BTreeMap<String, DiskEntry>;

struct Sim<'a> {
    ctx: &'a Ctx,
    prop: Prop,
    env: JjEnv,
    wss: Vec<Wsp>,
    transcript: Rc<RefCell<Vec<String>>>,
    commits: Vec<CommitInfo>,
    listing_ok: bool,
    /// op ids (hex), newest first.
    ops: Vec<String>,
    op_descs: HashMap<String, String>,
    /// (operation after which the workspace's @ was made immutable from the
    /// other workspace, workspace index)
    protect_ops: Vec<(String, usize)>,
    /// planned follow-up kinds (C41: undo/redo runs, ref edit + revert) and
    /// the workspace they run in
    plan: Vec<&'static str>,
    plan_ws: usize,
    known_ops: HashSet<String>,
    op_wc_cache: HashMap<String, BTreeMap<String, String>>,
    files_cache: HashMap<String, BTreeMap<String, Vec<Vec<u8>>>>,
    force_ws: Option<usize>,
    /// workspace -> working-copy commit in the view(s) of the current op heads,
    /// and the same before the last command.
    head_wc: BTreeMap<String, String>,
    prev_head_wc: BTreeMap<String, String>,
    imm_config: String,
    nontrivial: bool,
    aborted: Option<String>,
    undo_run: u64,
    reported_clauses: BTreeSet<String>,
}

fn entry_bytes(e: &DiskEntry) -> &[u8] {
    match e {
        DiskEntry::File { content, .. } => content,
        DiskEntry::Symlink(t) => t.as_bytes(),
    }
}

fn has_conflict_marker(bytes: &[u8]) -> bool {
    bytes.split(|b| *b == b'\n').any(|l| l.starts_with(b"<<<<<<<"))
}

fn first_line(s: &str) -> String {
    truncate(s.lines().find(|l| !l.trim().is_empty()).unwrap_or(""), 160)
}

fn strs(items: &[&str]) -> Vec<String> {
    items.iter().map(|s| (*s).to_owned()).collect()
}

fn gen_content(rng: &mut Rng) -> Vec<u8> {
    let n = rng.below(5);
    let mut s = String::new();
    for _ in 0..n {
        s.push_str(*rng.pick(LINES));
        s.push('\n');
    }
    if n > 0 && rng.chance(1, 8) {
        s.pop(); // missing final newline
    }
    s.into_bytes()
}

impl<'a> Sim<'a> {
    fn new(ctx: &'a Ctx, prop: Prop, root: &Path, transcript: Rc<RefCell<Vec<String>>>) -> Self {
        let mut env = JjEnv::new(root);
        // Generous watchdog (its firing is inconclusive, never a verdict): a
        // jj invocation takes well under a second on an idle machine.
        env.timeout = std::time::Duration::from_secs(600);
        let wss = vec![
            Wsp {
                name: "default",
                dir: env.root.join("ws"),
                created: false,
                forgotten: false,
                stale: false,
                force_edit: false,
                jj_written: BTreeMap::new(),
                placeholder_paths: BTreeSet::new(),
            },
            Wsp {
                name: "ws2",
                dir: env.root.join("ws2"),
                created: false,
                forgotten: false,
                stale: false,
                force_edit: false,
                jj_written: BTreeMap::new(),
                placeholder_paths: BTreeSet::new(),
            },
        ];
        Self {
            ctx,
            prop,
            env,
            wss,
            transcript,
            commits: vec![],
            listing_ok: false,
            ops: vec![],
            op_descs: HashMap::new(),
            protect_ops: vec![],
            plan: vec![],
            plan_ws: 0,
            known_ops: HashSet::new(),
            op_wc_cache: HashMap::new(),
            files_cache: HashMap::new(),
            force_ws: None,
            head_wc: BTreeMap::new(),
            prev_head_wc: BTreeMap::new(),
            imm_config: String::new(),
            nontrivial: false,
            aborted: None,
            undo_run: 0,
            reported_clauses: BTreeSet::new(),
        }
    }

    fn count(&self, key: &str) {
        self.ctx.count(key);
    }

    fn note(&self, line: String) {
        self.transcript.borrow_mut().push(line);
    }

    fn repo_dir(&self) -> PathBuf {
        repo_dir_of_workspace(&self.wss[0].dir)
    }

    /// Runs jj in workspace `ws` (or in the env root when `ws` is `None`).
    fn jj_raw(&mut self, cwd: &Path, label: &str, args: &[String]) -> Output {
        let refs: Vec<&str> = args.iter().map(|s| s.as_str()).collect();
        let started = std::time::Instant::now();
        let out = self.env.run(cwd, &refs);
        self.ctx.count_n("time_ms.jj_commands", started.elapsed().as_millis() as u64);
        let crashed = out.code == Some(101) || out.signal.is_some();
        self.note(format!(
            "[{label}] jj {} => code={:?}{} | {}",
            args.join(" "),
            out.code,
            if out.timed_out { " TIMEOUT" } else { "" },
            if crashed { truncate(&out.stderr, 700) } else { first_line(&out.stderr) }
        ));
        if out.timed_out {
            self.aborted = Some(format!("jj {} timed out", args.join(" ")));
        }
        if out.code == Some(101) || out.signal.is_some() {
            // A crash of jj is not what these properties are about; it is
            // recorded so that it can be reported separately.
            self.count("jj_crashed");
            if let Some(pos) = out.stderr.find("panicked at ") {
                let loc = out.stderr[pos + 12..].lines().next().unwrap_or("").trim_end_matches(':');
                let loc = loc.rsplit('/').next().unwrap_or(loc);
                self.count(&format!("jj_crashed@{loc}"));
                static SEEN: std::sync::Mutex<Vec<String>> = std::sync::Mutex::new(vec![]);
                let mut seen = SEEN.lock().unwrap();
                if !seen.iter().any(|l| l == loc) {
                    seen.push(loc.to_owned());
                    let lines = self.transcript.borrow();
                    self.ctx.set_extra(&format!("jj_crash_transcript@{loc}"), json!(*lines));
                }
            }
            let sample = json!({"args": args, "stderr": truncate(&out.stderr, 1500)});
            self.ctx.set_extra("jj_crash_sample", sample);
        } else if out.code == Some(255) {
            self.count("jj_internal_error");
            let sample = json!({"args": args, "stderr": truncate(&out.stderr, 800)});
            self.ctx.set_extra("jj_internal_error_sample", sample);
        }
        out
    }

    fn setup_must(&mut self, ws: usize, args: &[&str]) -> bool {
        let cwd = self.wss[ws].dir.clone();
        let label = self.wss[ws].name;
        let out = self.jj_raw(&cwd, label, &strs(args));
        if !out.success() {
            self.aborted = Some(format!("setup command {args:?} failed: {}", out.brief()));
        }
        out.success()
    }

    fn write_file(&self, ws: usize, rel: &str, content: &[u8]) {
        let root = &self.wss[ws].dir;
        // make room: ancestors must be directories, the path itself a file
        let mut prefix = PathBuf::new();
        let parts: Vec<&str> = rel.split('/').collect();
        for part in &parts[..parts.len() - 1] {
            prefix.push(part);
            let p = root.join(&prefix);
            if let Ok(meta) = std::fs::symlink_metadata(&p)
                && !meta.is_dir()
            {
                std::fs::remove_file(&p).ok();
            }
            std::fs::create_dir_all(&p).ok();
        }
        let p = root.join(rel);
        if let Ok(meta) = std::fs::symlink_metadata(&p) {
            if meta.is_dir() {
                std::fs::remove_dir_all(&p).ok();
            } else {
                std::fs::remove_file(&p).ok();
            }
        }
        std::fs::write(&p, content).ok();
    }

    fn random_edit(&mut self, rng: &mut Rng, ws: usize) {
        let root = self.wss[ws].dir.clone();
        let label = self.wss[ws].name;
        let disk = walk_disk(&root);
        let existing: Vec<String> = disk.keys().cloned().collect();
        let choice = rng.weighted(&[10, 5, 4, 2, 1, 2]);
        match choice {
            1 if !existing.is_empty() => {
                let p = rng.pick(&existing).clone();
                if let Some(DiskEntry::File { content, .. }) = disk.get(&p) {
                    let mut c = content.clone();
                    if !c.is_empty() && !c.ends_with(b"\n") {
                        c.push(b'\n');
                    }
                    c.extend_from_slice(rng.pick(LINES).as_bytes());
                    c.push(b'\n');
                    std::fs::write(root.join(&p), &c).ok();
                    self.note(format!("[{label}] edit: append to {p} -> {:?}", String::from_utf8_lossy(&c)));
                    self.count("edit.append");
                    if has_conflict_marker(&c) {
                        self.count("edit.append_to_conflict_markers");
                    }
                }
            }
            2 if !existing.is_empty() => {
                let p = rng.pick(&existing).clone();
                std::fs::remove_file(root.join(&p)).ok();
                self.note(format!("[{label}] edit: delete {p}"));
                self.count("edit.delete");
            }
            3 if !existing.is_empty() => {
                use std::os::unix::fs::PermissionsExt as _;
                let p = rng.pick(&existing).clone();
                if let Some(DiskEntry::File { exec, .. }) = disk.get(&p) {
                    let mode = if *exec { 0o644 } else { 0o755 };
                    std::fs::set_permissions(root.join(&p), std::fs::Permissions::from_mode(mode)).ok();
                    self.note(format!("[{label}] edit: chmod {mode:o} {p}"));
                    self.count("edit.chmod");
                }
            }
            4 => {
                let p = *rng.pick(PATHS);
                let target = *rng.pick(&["a", "b", "nowhere"]);
                self.write_file(ws, p, b"");
                std::fs::remove_file(root.join(p)).ok();
                std::os::unix::fs::symlink(target, root.join(p)).ok();
                self.note(format!("[{label}] edit: symlink {p} -> {target}"));
                self.count("edit.symlink");
            }
            5 if !existing.is_empty() => {
                let from = rng.pick(&existing).clone();
                let to = *rng.pick(PATHS);
                if !disk.contains_key(to) && !existing.iter().any(|e| e.starts_with(&format!("{to}/"))) {
                    if let Some(DiskEntry::File { content, .. }) = disk.get(&from) {
                        let content = content.clone();
                        std::fs::remove_file(root.join(&from)).ok();
                        self.write_file(ws, to, &content);
                        self.note(format!("[{label}] edit: move {from} -> {to}"));
                        self.count("edit.move");
                    }
                }
            }
            _ => {
                let p = *rng.pick(PATHS);
                let c = gen_content(rng);
                let was_dir = root.join(p).is_dir();
                self.write_file(ws, p, &c);
                self.note(format!("[{label}] edit: write {p} = {:?}", String::from_utf8_lossy(&c)));
                self.count("edit.write");
                if was_dir {
                    self.count("edit.dir_replaced_by_file");
                }
            }
        }
    }

    // -----------------------------------------------------------------------
    // Listing of the current state

    fn refresh_listing(&mut self) {
        let cwd = self.wss[0].dir.clone();
        let template = r#"commit_id ++ " " ++ change_id ++ " " ++ if(immutable, "I", "M") ++ if(empty, "E", "N") ++ if(root, "R", "-") ++ if(description, "D", "-") ++ "\n""#;
        let args = strs(&["log", "--ignore-working-copy", "--no-graph", "-r", "all()", "-T", template]);
        let refs: Vec<&str> = args.iter().map(|s| s.as_str()).collect();
        let started = std::time::Instant::now();
        let out = self.env.run(&cwd, &refs);
        self.ctx.count_n("time_ms.listing", started.elapsed().as_millis() as u64);
        if out.timed_out {
            self.aborted = Some("listing timed out".into());
        }
        if !out.success() {
            self.listing_ok = false;
            self.count("listing_failed");
            self.note(format!("[default] listing failed: {}", first_line(&out.stderr)));
            return;
        }
        let mut commits = vec![];
        for line in out.stdout.lines() {
            let parts: Vec<&str> = line.split(' ').collect();
            if parts.len() != 3 || parts[2].len() != 4 {
                continue;
            }
            let flags = parts[2].as_bytes();
            commits.push(CommitInfo {
                id: parts[0].to_owned(),
                change: parts[1].to_owned(),
                immutable: flags[0] == b'I',
                empty: flags[1] == b'E',
                root: flags[2] == b'R',
                described: flags[3] == b'D',
            });
        }
        self.listing_ok = !commits.is_empty();
        self.commits = commits;
    }

    /// Listing of the visible commits through the reader (no jj invocation):
    /// used by C40/C41, which do not need jj's evaluation of `immutable()`.
    fn refresh_listing_in_process(&mut self, reader: &RepoReader, ops: &[Operation]) {
        let started = std::time::Instant::now();
        let result = (|| -> Result<Vec<CommitInfo>, String> {
            let mut out = vec![];
            let mut seen: HashSet<CommitId> = HashSet::new();
            for h in reader.op_heads()? {
                let Some(op) = ops.iter().find(|o| o.id() == &h) else { continue };
                let repo = reader.repo_at(op)?;
                let root_id = repo.store().root_commit_id().clone();
                let mut stack: Vec<CommitId> = repo.view().heads().iter().cloned().collect();
                while let Some(id) = stack.pop() {
                    if !seen.insert(id.clone()) {
                        continue;
                    }
                    let commit = reader.commit(&repo, &id)?;
                    stack.extend(commit.parent_ids().iter().cloned());
                    out.push(CommitInfo {
                        id: id.hex(),
                        change: commit.change_id().reverse_hex(),
                        immutable: id == root_id,
                        empty: false,
                        root: id == root_id,
                        described: !commit.description().is_empty(),
                    });
                }
            }
            out.sort_by(|a, b| a.id.cmp(&b.id));
            Ok(out)
        })();
        self.ctx.count_n("time_ms.listing", started.elapsed().as_millis() as u64);
        match result {
            Ok(commits) if !commits.is_empty() => {
                self.commits = commits;
                self.listing_ok = true;
            }
            _ => {
                self.listing_ok = false;
                self.count("listing_failed");
            }
        }
    }

    fn open_reader(&mut self) -> Option<(RepoReader, Vec<Operation>)> {
        let reader = match RepoReader::open(&self.repo_dir()) {
            Ok(r) => r,
            Err(e) => {
                self.aborted = Some(format!("reader: {e}"));
                return None;
            }
        };
        match reader.all_ops() {
            Ok(ops) => Some((reader, ops)),
            Err(e) => {
                self.aborted = Some(format!("reader: {e}"));
                None
            }
        }
    }

    fn refresh_ops(&mut self) -> Option<(RepoReader, Vec<Operation>, Vec<Operation>)> {
        let started = std::time::Instant::now();
        let (reader, ops) = self.open_reader()?;
        self.ctx.count_n("time_ms.open_reader_and_walk_ops", started.elapsed().as_millis() as u64);
        self.ops = ops.iter().map(|o| o.id().hex()).collect();
        let new_ops: Vec<Operation> = ops.iter().filter(|o| !self.known_ops.contains(&o.id().hex())).cloned().collect();
        for o in &ops {
            self.known_ops.insert(o.id().hex());
            self.op_descs.entry(o.id().hex()).or_insert_with(|| o.metadata().description.clone());
        }
        let mut head_wc = BTreeMap::new();
        for h in reader.op_heads().unwrap_or_default() {
            let key = h.hex();
            if !self.op_wc_cache.contains_key(&key)
                && let Some(op) = ops.iter().find(|o| o.id() == &h)
                && let Ok(summary) = reader.view_summary(op)
            {
                self.op_wc_cache.insert(key.clone(), summary.wc_commits);
            }
            if let Some(wc) = self.op_wc_cache.get(&key) {
                head_wc.extend(wc.iter().map(|(k, v)| (k.clone(), v.clone())));
            }
        }
        self.prev_head_wc = std::mem::replace(&mut self.head_wc, head_wc);
        Some((reader, ops, new_ops))
    }

    // -----------------------------------------------------------------------
    // Generator

    fn rev(&self, rng: &mut Rng, ws: usize, prefer_immutable: bool) -> String {
        if self.commits.is_empty() {
            return "@".into();
        }
        if prefer_immutable && rng.chance(1, 2) {
            let imm: Vec<&CommitInfo> = self.commits.iter().filter(|c| c.immutable && !c.root).collect();
            if !imm.is_empty() {
                let c = rng.pick(&imm);
                return if rng.bool() { c.change[..12].to_owned() } else { c.id[..12].to_owned() };
            }
        }
        let r = rng.below(100);
        let c = &self.commits[rng.below(self.commits.len())];
        if r < 55 {
            c.change[..12].to_owned()
        } else if r < 72 {
            c.id[..12].to_owned()
        } else if r < 78 {
            "@-".into()
        } else if r < 84 {
            "@".into()
        } else if r < 92 {
            let other = 1 - ws;
            if self.wss[other].created { format!("{}@", self.wss[other].name) } else { "@".into() }
        } else if r < 95 {
            "root()".into()
        } else {
            (*rng.pick(BOOKMARKS)).to_owned()
        }
    }

    fn msg(&self, rng: &mut Rng) -> String {
        let base = *rng.pick(MESSAGES);
        if rng.chance(1, 3) { format!("{base} {}", rng.below(50)) } else { base.to_owned() }
    }

    fn pick_op(&self, rng: &mut Rng, window: usize) -> Option<String> {
        let candidates: Vec<&String> = self
            .ops
            .iter()
            .filter(|o| !o.chars().all(|c| c == '0'))
            .take(window)
            .collect();
        if candidates.is_empty() {
            return None;
        }
        Some(rng.pick(&candidates)[..16].to_owned())
    }

    fn gen_cmd(&mut self, rng: &mut Rng) -> Cmd {
        let two = self.wss[1].created;
        let mut ws = 0;
        if two && !self.wss[1].forgotten && rng.chance(2, 5) {
            ws = 1;
        }
        if two && self.wss[1].forgotten && rng.chance(1, 8) {
            ws = 1;
        }
        if ws == 1 && !self.head_wc.contains_key(self.wss[1].name) && !rng.chance(1, 3) {
            // the second workspace is not part of the current view (forgotten,
            // or removed by undo / op restore): run commands there only rarely
            ws = 0;
        }
        if let Some(f) = self.force_ws.take() {
            ws = f;
        }
        let mk = |ws: usize, kind: &'static str, args: Vec<String>| Cmd { ws, kind, args, at_op: false, ignore_immutable: false, quiet: false };
        if self.wss[ws].stale && rng.chance(3, 5) {
            return mk(ws, "update_stale", strs(&["workspace", "update-stale"]));
        }
        let table: Vec<(&'static str, usize)> = weights(self.prop)
            .into_iter()
            .filter(|(k, _)| match *k {
                "ws_add" => !two,
                "ws_forget" | "touch_other" | "protect_other" => two && !self.wss[1].forgotten,
                _ => true,
            })
            .collect();
        let ws_weights: Vec<usize> = table.iter().map(|(_, w)| *w).collect();
        let mut kind = table[rng.weighted(&ws_weights)].0;
        let mut planned = false;
        if !self.plan.is_empty() {
            kind = self.plan.remove(0);
            ws = self.plan_ws;
            planned = true;
            if kind == "ref_again" {
                kind = *rng.pick(&["bookmark_create", "bookmark_set", "tag_set", "bookmark_delete"]);
            }
        } else if self.prop == Prop::C41 && rng.chance(1, 2) {
            // plan follow-ups
            match kind {
                "undo" => {
                    let plans: [&[&'static str]; 6] =
                        [&["undo"], &["redo"], &["undo", "redo"], &["undo", "undo", "redo", "redo"], &["redo", "redo"], &["redo", "undo", "redo"]];
                    self.plan = rng.pick(&plans).to_vec();
                    self.plan_ws = ws;
                }
                "bookmark_create" | "bookmark_move" | "bookmark_set" | "bookmark_delete" | "tag_set" | "tag_delete" => {
                    self.plan = if rng.bool() { vec!["ref_again", "revert_prev_ref"] } else { vec!["ref_again", "ref_again", "revert_prev_ref"] };
                    self.plan_ws = ws;
                }
                _ => {}
            }
        }
        let pi = self.prop == Prop::C42;
        let ws_for_rev = ws;
        let rev = move |s: &Self, rng: &mut Rng| s.rev(rng, ws_for_rev, pi);
        let mut args: Vec<String> = match kind {
            "status" => {
                if rng.bool() {
                    strs(&["status"])
                } else {
                    strs(&["diff", "--summary"])
                }
            }
            "new" => {
                let mut a = strs(&["new"]);
                match rng.weighted(&[4, 5, 2]) {
                    0 => {}
                    1 => a.push(rev(self, rng)),
                    _ => {
                        a.push(rev(self, rng));
                        a.push(rev(self, rng));
                    }
                }
                if rng.bool() {
                    a.push("-m".into());
                    a.push(self.msg(rng));
                }
                a
            }
            "new_insert" => {
                let flag = if rng.bool() { "-A" } else { "-B" };
                vec!["new".into(), flag.into(), rev(self, rng)]
            }
            "edit" => vec!["edit".into(), rev(self, rng)],
            "describe" => {
                let mut a = strs(&["describe"]);
                if rng.chance(3, 5) {
                    a.push(rev(self, rng));
                }
                a.push("-m".into());
                a.push(self.msg(rng));
                a
            }
            "commit" => {
                let mut a = vec!["commit".into(), "-m".into(), self.msg(rng)];
                if rng.chance(1, 3) {
                    a.push((*rng.pick(PATHS)).to_owned());
                }
                a
            }
            "squash" => {
                let mut a = strs(&["squash"]);
                match rng.weighted(&[5, 4, 2]) {
                    0 => {}
                    1 => {
                        a.push("--from".into());
                        a.push(rev(self, rng));
                        a.push("--into".into());
                        a.push(rev(self, rng));
                    }
                    _ => {
                        a.push("-r".into());
                        a.push(rev(self, rng));
                    }
                }
                if rng.chance(2, 3) {
                    a.push("-u".into());
                } else {
                    a.push("-m".into());
                    a.push(self.msg(rng));
                }
                if rng.chance(1, 5) {
                    a.push("-k".into());
                }
                if rng.chance(1, 4) {
                    a.push((*rng.pick(PATHS)).to_owned());
                }
                a
            }
            "split" => {
                let mut a = strs(&["split"]);
                if rng.bool() {
                    a.push("-r".into());
                    a.push(rev(self, rng));
                }
                if rng.chance(1, 5) {
                    a.push("--parallel".into());
                }
                a.push("-m".into());
                a.push(self.msg(rng));
                a.push((*rng.pick(PATHS)).to_owned());
                if rng.chance(1, 3) {
                    a.push((*rng.pick(PATHS)).to_owned());
                }
                a
            }
            "abandon" => {
                let mut a = strs(&["abandon"]);
                if rng.chance(3, 5) {
                    a.push(rev(self, rng));
                }
                a
            }
            "rebase" => {
                let mut a = strs(&["rebase"]);
                match rng.below(4) {
                    0 => {
                        a.push("-s".into());
                        a.push(rev(self, rng));
                    }
                    1 => {
                        a.push("-r".into());
                        a.push(rev(self, rng));
                    }
                    2 => {
                        a.push("-b".into());
                        a.push(rev(self, rng));
                    }
                    _ => {}
                }
                a.push((*rng.pick(&["-d", "-d", "-A", "-B"])).to_owned());
                a.push(rev(self, rng));
                a
            }
            "restore" => {
                let mut a = strs(&["restore"]);
                match rng.below(5) {
                    0 => {}
                    1 => a.push((*rng.pick(PATHS)).to_owned()),
                    2 => {
                        a.push("--from".into());
                        a.push(rev(self, rng));
                        if rng.bool() {
                            a.push((*rng.pick(PATHS)).to_owned());
                        }
                    }
                    3 => {
                        a.push("--from".into());
                        a.push(rev(self, rng));
                        a.push("--into".into());
                        a.push(rev(self, rng));
                    }
                    _ => {
                        a.push("-c".into());
                        a.push(rev(self, rng));
                    }
                }
                a
            }
            "duplicate" => {
                let mut a = vec!["duplicate".into(), rev(self, rng)];
                if rng.chance(1, 3) {
                    a.push((*rng.pick(&["-A", "-B"])).to_owned());
                    a.push(rev(self, rng));
                }
                a
            }
            "parallelize" => {
                if rng.bool() {
                    strs(&["parallelize", "@--::@"])
                } else {
                    vec!["parallelize".into(), rev(self, rng), rev(self, rng)]
                }
            }
            "absorb" => strs(&["absorb"]),
            "metaedit" => {
                let flag = *rng.pick(&["--update-change-id", "--update-author-timestamp", "--update-author"]);
                vec!["metaedit".into(), rev(self, rng), flag.into()]
            }
            "simplify" => vec!["simplify-parents".into(), "-r".into(), rev(self, rng)],
            "chmod" => vec![
                "file".into(),
                "chmod".into(),
                (*rng.pick(&["x", "n"])).to_owned(),
                "-r".into(),
                rev(self, rng),
                (*rng.pick(PATHS)).to_owned(),
            ],
            "revert" => vec![
                "revert".into(),
                "-r".into(),
                rev(self, rng),
                (*rng.pick(&["--onto", "--insert-after", "--insert-before"])).to_owned(),
                rev(self, rng),
            ],
            // The diff editor appends a line to every file of the right side,
            // so the target is really rewritten when it has changes to edit.
            "diffedit" => {
                let mut a = vec!["diffedit".to_owned(), "--config".to_owned(), DIFFEDIT_TOOL.to_owned()];
                match rng.below(4) {
                    0 => {}
                    1 => {
                        a.push("-r".into());
                        a.push(rev(self, rng));
                    }
                    2 => {
                        a.push("--from".into());
                        a.push(rev(self, rng));
                        a.push("--to".into());
                        a.push(rev(self, rng));
                    }
                    _ => {
                        a.push("--from".into());
                        a.push("@".into());
                        a.push("--to".into());
                        a.push(rev(self, rng));
                    }
                }
                a
            }
            "fix" => {
                let mut a = strs(&[
                    "fix",
                    "--config",
                    r#"fix.tools.up.command=["tr","a-z","A-Z"]"#,
                    "--config",
                    r#"fix.tools.up.patterns=["all()"]"#,
                ]);
                if rng.chance(2, 3) {
                    a.push("-s".into());
                    a.push(rev(self, rng));
                }
                a
            }
            "resolve" => {
                vec!["resolve".into(), "-r".into(), rev(self, rng), "--tool".into(), (*rng.pick(&[":ours", ":theirs"])).to_owned()]
            }
            "sign" => {
                if rng.chance(2, 3) {
                    vec![
                        "sign".into(),
                        "-r".into(),
                        rev(self, rng),
                        "--config".into(),
                        "signing.backend=test".into(),
                        "--config".into(),
                        "signing.key=k".into(),
                    ]
                } else {
                    vec!["unsign".into(), "-r".into(), rev(self, rng)]
                }
            }
            "next_prev" => {
                let mut a = vec![(*rng.pick(&["next", "prev"])).to_owned()];
                if rng.bool() {
                    a.push("--edit".into());
                }
                a
            }
            "bookmark_create" => vec!["bookmark".into(), "create".into(), (*rng.pick(BOOKMARKS)).to_owned(), "-r".into(), rev(self, rng)],
            "bookmark_move" => {
                let mut a = vec!["bookmark".into(), "move".into(), (*rng.pick(BOOKMARKS)).to_owned(), "--to".into(), rev(self, rng)];
                if rng.bool() {
                    a.push("-B".into());
                }
                a
            }
            "bookmark_set" => {
                let mut a = vec!["bookmark".into(), "set".into(), (*rng.pick(BOOKMARKS)).to_owned(), "-r".into(), rev(self, rng)];
                if rng.bool() {
                    a.push("-B".into());
                }
                a
            }
            "bookmark_delete" => vec!["bookmark".into(), "delete".into(), (*rng.pick(BOOKMARKS)).to_owned()],
            "tag_set" => {
                let mut a = vec!["tag".into(), "set".into(), (*rng.pick(TAGS)).to_owned(), "-r".into(), rev(self, rng)];
                if rng.bool() {
                    a.push("--allow-move".into());
                }
                a
            }
            "tag_delete" => vec!["tag".into(), "delete".into(), (*rng.pick(TAGS)).to_owned()],
            "undo" => strs(&["undo"]),
            "redo" => strs(&["redo"]),
            "op_restore" => {
                if self.prop == Prop::C41 && !self.protect_ops.is_empty() && rng.chance(2, 5) {
                    // back to the operation that made this workspace's @ immutable
                    let (op, w) = rng.pick(&self.protect_ops).clone();
                    ws = w;
                    vec!["op".into(), "restore".into(), op[..16].to_owned()]
                } else {
                    match self.pick_op(rng, 12) {
                        Some(op) => {
                            let mut v: Vec<String> = vec!["op".into(), "restore".into(), op];
                            if self.prop == Prop::C41 {
                                // single-portion restores
                                match rng.below(8) {
                                    0..=2 => v.extend(strs(&["--what", "repo"])),
                                    3 => v.extend(strs(&["--what", "remote-tracking"])),
                                    _ => {}
                                }
                            }
                            v
                        }
                        None => strs(&["status"]),
                    }
                }
            }
            "op_revert" => {
                let ref_op = self.ops.iter().take(8).find(|o| {
                    self.op_descs.get(*o).is_some_and(|d| {
                        ["create bookmark", "point bookmark", "delete bookmark", "set tag", "delete tag", "create tag"].iter().any(|p| d.starts_with(p))
                    })
                });
                if rng.chance(2, 5) {
                    strs(&["op", "revert", "@"])
                } else if let Some(op) = ref_op
                    && rng.chance(3, 5)
                {
                    vec!["op".into(), "revert".into(), op[..16].to_owned()]
                } else {
                    match self.pick_op(rng, 5) {
                        Some(op) => vec!["op".into(), "revert".into(), op],
                        None => strs(&["status"]),
                    }
                }
            }
            "revert_prev_ref" => {
                // the operation before the latest one
                match self.ops.get(1) {
                    Some(op) if !op.chars().all(|c| c == '0') => vec!["op".into(), "revert".into(), op[..16].to_owned()],
                    _ => strs(&["op", "revert", "@"]),
                }
            }
            "ws_add" => {
                ws = 0;
                let mut a = strs(&["workspace", "add", "../ws2"]);
                if rng.chance(1, 3) {
                    a.push("-r".into());
                    a.push(self.rev(rng, 0, false));
                }
                a
            }
            "ws_forget" => {
                if ws == 1 {
                    strs(&["workspace", "forget"])
                } else {
                    strs(&["workspace", "forget", "ws2"])
                }
            }
            "update_stale" => strs(&["workspace", "update-stale"]),
            // Rewrite the *other* workspace's working-copy commit from this
            // one (making the other one stale when its tree changes), then
            // force edits and the next command over there.
            "touch_other" => {
                let other = 1 - ws;
                let target = format!("{}@", self.wss[other].name);
                self.wss[other].force_edit = true;
                self.force_ws = Some(other);
                match rng.below(6) {
                    0 => vec!["describe".into(), target, "-m".into(), self.msg(rng)],
                    1 => vec!["squash".into(), "--from".into(), "@".into(), "--into".into(), target, "-u".into()],
                    2 => vec!["abandon".into(), target],
                    3 => vec!["rebase".into(), "-r".into(), target, "-d".into(), self.rev(rng, ws, false)],
                    4 => vec!["restore".into(), "--from".into(), self.rev(rng, ws, false), "--into".into(), target],
                    _ => vec!["squash".into(), "--from".into(), target, "--into".into(), "@".into(), "-u".into()],
                }
            }
            // Make the other workspace's working-copy commit immutable from
            // here (only the current workspace gets a new commit on top).
            "protect_other" => {
                let other = 1 - ws;
                let target = format!("{}@", self.wss[other].name);
                self.wss[other].force_edit = true;
                self.force_ws = Some(other);
                // prefer the way that matters under the configured immutable_heads()
                let c = self.imm_config.as_str();
                let choice = if rng.chance(1, 4) {
                    rng.below(3)
                } else if c.contains("description") {
                    2
                } else if c.contains("bookmarks") && (!c.contains("tags") || rng.bool()) {
                    0
                } else {
                    1
                };
                match choice {
                    0 => vec!["bookmark".into(), "set".into(), (*rng.pick(BOOKMARKS)).to_owned(), "-r".into(), target, "-B".into()],
                    1 => vec!["tag".into(), "set".into(), (*rng.pick(TAGS)).to_owned(), "-r".into(), target, "--allow-move".into()],
                    _ => vec!["describe".into(), target, "-m".into(), format!("imm protected {}", rng.below(50))],
                }
            }
            _ => strs(&["status"]),
        };
        let kind = if kind == "revert_prev_ref" { "op_revert" } else { kind };
        let mut cmd = mk(ws, kind, vec![]);
        cmd.quiet = planned;
        // --at-op: run a (non working-copy) command at an older operation.
        if self.prop == Prop::C40
            && matches!(kind, "describe" | "abandon" | "rebase" | "squash" | "duplicate" | "bookmark_create" | "new" | "restore")
            && rng.chance(1, 9)
            && let Some(op) = self.pick_op(rng, 6)
        {
            let mut a = vec!["--at-op".to_owned(), op];
            a.append(&mut args);
            args = a;
            cmd.at_op = true;
        }
        if self.prop == Prop::C42
            && !matches!(kind, "status" | "ws_add" | "ws_forget" | "update_stale")
            && rng.chance(1, 12)
        {
            args.insert(0, "--ignore-immutable".into());
            cmd.ignore_immutable = true;
        }
        cmd.args = args;
        cmd
    }

    // -----------------------------------------------------------------------
    // Sequence

    fn setup(&mut self, rng: &mut Rng) -> bool {
        let root = self.env.root.clone();
        let out = self.jj_raw(&root, "root", &strs(&["git", "init", "ws"]));
        if !out.success() {
            self.aborted = Some(format!("git init failed: {}", out.brief()));
            return false;
        }
        self.wss[0].created = true;
        self.write_file(0, "a", b"alpha\nbeta\ngamma\n");
        self.write_file(0, "b", b"delta\n");
        if !self.setup_must(0, &["commit", "-m", "base"]) {
            return false;
        }
        self.write_file(0, "d/e", b"epsilon\n");
        self.write_file(0, "a", b"alpha\nbeta\ngamma\ndelta\n");
        if !self.setup_must(0, &["commit", "-m", "imm second"]) {
            return false;
        }
        if !self.setup_must(0, &["bookmark", "create", "main", "-r", "@--"]) {
            return false;
        }
        // configuration of the sequence
        let auto_stale = self.prop == Prop::C40 && rng.chance(1, 3);
        if auto_stale {
            self.env.add_config("[snapshot]\nauto-update-stale = true\n");
            self.count("config.auto_update_stale");
        }
        let imm = match self.prop {
            Prop::C40 => "",
            _ => *rng.pick(&[
                "",
                "trunk=main",
                "none()",
                "tags()",
                "bookmarks()",
                "bookmarks() | tags()",
                r#"description(glob:"imm*")"#,
                "<commit>",
                "tags() | <commit>",
            ]),
        };
        let mut imm_value = imm.to_owned();
        if imm.contains("<commit>") {
            // a specific commit: any non-root commit that exists now
            self.refresh_listing();
            let candidates: Vec<String> = self.commits.iter().filter(|c| !c.root).map(|c| c.id.clone()).collect();
            if candidates.is_empty() {
                imm_value = "none()".into();
            } else {
                imm_value = imm.replace("<commit>", rng.pick(&candidates).as_str());
            }
        }
        if imm_value == "trunk=main" {
            self.env.add_config("[revset-aliases]\n\"trunk()\" = \"present(main)\"\n");
        } else if !imm_value.is_empty() {
            self.env.add_config(&format!("[revset-aliases]\n\"immutable_heads()\" = '{imm_value}'\n"));
        }
        self.imm_config = if imm_value.is_empty() { "builtin".into() } else { imm_value };
        self.count(&format!("config.immutable_heads.{}", if imm.is_empty() { "builtin" } else { imm }));
        self.note(format!("config: immutable_heads = {} auto-update-stale = {auto_stale}", self.imm_config));
        let ws2_at_start = match self.prop {
            Prop::C40 => rng.chance(1, 3),
            Prop::C41 => rng.chance(1, 2),
            Prop::C42 => rng.chance(1, 2),
        };
        if ws2_at_start {
            if !self.setup_must(0, &["workspace", "add", "../ws2"]) {
                return false;
            }
            self.wss[1].created = true;
        }
        let Some((reader, ops, _)) = self.refresh_ops() else {
            return false;
        };
        if self.prop == Prop::C42 {
            self.refresh_listing();
        } else {
            self.refresh_listing_in_process(&reader, &ops);
        }
        true
    }

    fn run(&mut self, rng: &mut Rng, steps: usize) -> Check {
        if !self.setup(rng) {
            return Ok(());
        }
        for _ in 0..steps {
            if self.aborted.is_some() {
                break;
            }
            self.step(rng)?;
        }
        Ok(())
    }

    fn step(&mut self, rng: &mut Rng) -> Check {
        let cmd = self.gen_cmd(rng);
        // random edits (fewer before undo/redo/op revert in the C41 workload,
        // where an intervening snapshot operation changes what they mean)
        let quiet = cmd.quiet || (self.prop == Prop::C41 && matches!(cmd.kind, "undo" | "redo" | "op_revert") && !rng.chance(1, 4));
        for ws in 0..self.wss.len() {
            if !self.wss[ws].created {
                continue;
            }
            let mut n = if quiet { 0 } else { *rng.pick(&[0usize, 0, 1, 1, 2, 3]) };
            if self.wss[ws].force_edit && cmd.ws == ws {
                n = n.max(1);
                self.wss[ws].force_edit = false;
            }
            for _ in 0..n {
                self.random_edit(rng, ws);
            }
        }
        // pre-state
        let pre: Vec<Option<Disk>> = self.wss.iter().map(|w| w.created.then(|| walk_disk(&w.dir))).collect();
        for (w, d) in self.wss.iter_mut().zip(&pre) {
            if let Some(d) = d {
                w.jj_written.retain(|p, bytes| d.get(p).is_some_and(|e| entry_bytes(e) == bytes.as_slice()));
            }
        }
        let immutable_before: Vec<CommitInfo> = self.commits.iter().filter(|c| c.immutable).cloned().collect();
        let listing_ok_before = self.listing_ok;

        let cwd = self.wss[cmd.ws].dir.clone();
        let label = self.wss[cmd.ws].name;
        let out = self.jj_raw(&cwd, label, &cmd.args);
        if self.aborted.is_some() {
            return Ok(());
        }
        self.count(&format!("cmd.{}.{}", cmd.kind, if out.success() { "ok" } else { "failed" }));
        if cmd.at_op {
            self.count(if out.success() { "at_op.ok" } else { "at_op.failed" });
        }
        if out.stderr.contains("Concurrent modification detected") {
            self.count("observed.concurrent_ops_reconciled");
        }
        if out.stderr.contains("unresolved conflicts") || out.stdout.contains("unresolved conflicts") {
            self.count("observed.conflicts_reported");
        }
        let stale_msg = out.stderr.contains("working copy is stale") || out.stderr.contains("workspace update-stale");
        if !out.success() && stale_msg {
            self.wss[cmd.ws].stale = true;
            self.count("observed.stale_working_copy_refused");
        } else if out.success() {
            if cmd.kind == "update_stale" && self.wss[cmd.ws].stale {
                self.count("observed.stale_recovered_by_update_stale");
            } else if self.wss[cmd.ws].stale {
                self.count("observed.stale_cleared_by_other_means");
            }
            self.wss[cmd.ws].stale = false;
        }
        if out.stderr.contains("Updated working copy to fresh commit") {
            self.count("observed.updated_stale_working_copy");
        }
        if out.stderr.contains("immutable") && !out.success() {
            self.count("observed.refused_immutable");
        }
        if out.success() && cmd.kind == "ws_add" && self.wss[1].dir.join(".jj").exists() {
            self.wss[1].created = true;
        }
        if out.success() && cmd.kind == "ws_forget" {
            self.wss[1].forgotten = true;
        }
        let protected_other = out.success() && cmd.kind == "protect_other";
        if cmd.kind == "undo" && out.success() {
            self.undo_run += 1;
            self.ctx.max("max_consecutive_undo_depth", self.undo_run);
        } else if cmd.kind != "status" {
            self.undo_run = 0;
        }

        // post-state
        let post: Vec<Option<Disk>> = self.wss.iter().map(|w| w.dir.exists().then(|| walk_disk(&w.dir))).collect();
        let Some((reader, ops, new_ops)) = self.refresh_ops() else {
            return Ok(());
        };
        self.ctx.max("max_operations_in_log", ops.len() as u64);
        if protected_other && let Some(head) = self.ops.first() {
            self.protect_ops.push((head.clone(), 1 - cmd.ws));
        }
        for op in &new_ops {
            if op.metadata().is_snapshot {
                self.count("observed.snapshot_operations");
            }
            if op.parent_ids().len() > 1 {
                self.count("observed.merge_operations");
            }
        }
        let started = std::time::Instant::now();
        let result = match self.prop {
            Prop::C40 => self.check_c40(&reader, &ops, &pre, &post, &cmd),
            Prop::C41 => self.check_c41(&reader, &ops, &cmd, &out),
            Prop::C42 => Ok(()),
        };
        self.ctx.count_n("time_ms.oracle", started.elapsed().as_millis() as u64);
        // what jj wrote during this command
        for (i, w) in self.wss.iter_mut().enumerate() {
            let (Some(before), Some(after)) = (pre.get(i).and_then(|d| d.as_ref()), post.get(i).and_then(|d| d.as_ref())) else {
                if let Some(Some(after)) = post.get(i)
                    && w.created
                {
                    // freshly created workspace: everything was written by jj
                    for (p, e) in after {
                        w.jj_written.insert(p.clone(), entry_bytes(e).to_vec());
                    }
                }
                continue;
            };
            for (p, e) in after {
                if before.get(p).map(entry_bytes) != Some(entry_bytes(e)) {
                    w.jj_written.insert(p.clone(), entry_bytes(e).to_vec());
                    if entry_bytes(e).starts_with(b"Conflict:\n  ") {
                        w.placeholder_paths.insert(p.clone());
                    } else {
                        w.placeholder_paths.remove(p);
                    }
                }
            }
        }
        result?;
        if self.prop == Prop::C42 {
            // No new operation: the view (and the configuration) is unchanged,
            // so the listing taken before the command is still exact.
            if new_ops.is_empty() && self.listing_ok {
                self.count("c42.listing_reused_no_new_operation");
            } else {
                self.refresh_listing();
            }
        } else {
            self.refresh_listing_in_process(&reader, &ops);
        }
        if self.prop == Prop::C42 {
            self.check_c42(&reader, &new_ops, &cmd, &immutable_before, listing_ok_before)?;
        }
        Ok(())
    }

    // -----------------------------------------------------------------------
    // C40

    fn recorded_has(
        &mut self,
        reader: &RepoReader,
        repo: &Arc<ReadonlyRepo>,
        ops: &[Operation],
        ws_name: &str,
        path: &str,
        bytes: &[u8],
    ) -> Result<bool, String> {
        for op in ops {
            let key = op.id().hex();
            if !self.op_wc_cache.contains_key(&key) {
                let summary = reader.view_summary(op)?;
                self.op_wc_cache.insert(key.clone(), summary.wc_commits);
            }
            let Some(cid) = self.op_wc_cache[&key].get(ws_name).cloned() else {
                continue;
            };
            if !self.files_cache.contains_key(&cid) {
                let id = CommitId::try_from_hex(&cid).ok_or_else(|| format!("bad commit id {cid}"))?;
                let commit = reader.commit(repo, &id)?;
                let files = reader.commit_files(repo, &commit)?;
                self.files_cache.insert(cid.clone(), files);
            }
            if self.files_cache[&cid].get(path).is_some_and(|versions| versions.iter().any(|v| v == bytes)) {
                return Ok(true);
            }
        }
        Ok(false)
    }

    fn check_c40(&mut self, reader: &RepoReader, ops: &[Operation], pre: &[Option<Disk>], post: &[Option<Disk>], cmd: &Cmd) -> Check {
        let mut repo: Option<Arc<ReadonlyRepo>> = None;
        let empty = Disk::new();
        let mut still = 0u64;
        for w in 0..self.wss.len() {
            let Some(before) = &pre[w] else { continue };
            let after = post[w].as_ref().unwrap_or(&empty);
            let ws_name = self.wss[w].name;
            for (p, e) in before {
                let bytes = entry_bytes(e);
                if after.get(p).is_some_and(|a| entry_bytes(a) == bytes) {
                    still += 1;
                    continue;
                }
                if repo.is_none() {
                    let Some(op) = ops.first() else {
                        self.aborted = Some("empty op log".into());
                        return Ok(());
                    };
                    match reader.repo_at(op) {
                        Ok(r) => repo = Some(r),
                        Err(e) => {
                            self.aborted = Some(format!("reader: {e}"));
                            return Ok(());
                        }
                    }
                }
                let found = match self.recorded_has(reader, repo.as_ref().unwrap(), ops, ws_name, p, bytes) {
                    Ok(f) => f,
                    Err(e) => {
                        self.aborted = Some(format!("reader: {e}"));
                        return Ok(());
                    }
                };
                if found {
                    self.count("c40.left_disk_found_in_op_log");
                    if cmd.ws != w {
                        self.count("c40.left_disk_in_other_workspace");
                    }
                    if self.wss[w].jj_written.get(p).map(|b| b.as_slice()) != Some(bytes) {
                        // a state that we (the "user") produced was replaced on
                        // disk and is recoverable from the log
                        self.count("c40.user_state_left_disk_found_in_op_log");
                        self.nontrivial = true;
                    }
                    continue;
                }
                // SOUNDNESS: a materialized conflict (conflict markers, or the
                // textual description jj writes for non-file conflicts) is
                // content that jj derived from a commit; when it is snapshotted
                // it is parsed back into the conflict, so these bytes are never
                // stored verbatim. Unedited content that jj itself wrote is
                // not a "working-copy change". An edited file that still
                // contains conflict markers is stored as the parsed conflict
                // (sides edited), again not verbatim; C05/C06 cover that
                // round trip.
                if self.wss[w].jj_written.get(p).map(|b| b.as_slice()) == Some(bytes) {
                    if has_conflict_marker(bytes) {
                        self.count("c40.exempt.unedited_conflict_markers_written_by_jj");
                    } else if bytes.starts_with(b"Conflict:\n  ") {
                        self.count("c40.exempt.unedited_non_file_conflict_placeholder_written_by_jj");
                    } else {
                        self.count("c40.exempt.unedited_other_content_written_by_jj");
                    }
                    continue;
                }
                if has_conflict_marker(bytes) {
                    self.count("c40.exempt.edited_file_with_conflict_markers");
                    continue;
                }
                // Own signature for the case where the workspace had no
                // working-copy commit in the repository when the command
                // started (forgotten, or removed from the view by undo / op
                // restore): jj then skips the snapshot.
                // Another own signature: the user replaced the placeholder file
                // of a non-file conflict (file vs directory) by real content.
                let clause = if !self.prev_head_wc.contains_key(ws_name) {
                    "file_state_recoverable.workspace_not_in_view"
                } else if self.wss[w].placeholder_paths.contains(p) {
                    "file_state_recoverable.non_file_conflict_placeholder_overwritten"
                } else {
                    "file_state_recoverable"
                };
                let message = format!(
                    "workspace {ws_name}: {p:?} had content {:?} on disk before `jj {}` (run in {}); afterwards it is neither \
                     on disk nor in the working-copy commit of {ws_name} in any of the {} operations of the log",
                    String::from_utf8_lossy(bytes),
                    cmd.args.join(" "),
                    self.wss[cmd.ws].name,
                    ops.len()
                );
                if clause != "file_state_recoverable" {
                    // Sub-classified (candidate known findings): report once
                    // per sequence and keep monitoring the rest of it.
                    if self.reported_clauses.insert(clause.to_owned()) {
                        let witness = json!({"transcript": *self.transcript.borrow(), "clause": clause, "detail": message});
                        self.ctx.violation(clause, &format!("clause {clause}: {message}"), witness);
                    }
                    self.count(&format!("c40.violation.{clause}"));
                    continue;
                }
                return fail(clause, message);
            }
        }
        self.ctx.count_n("c40.still_on_disk", still);
        Ok(())
    }

    // -----------------------------------------------------------------------
    // C41

    fn op_by_hex<'o>(ops: &'o [Operation], hex: &str) -> Option<&'o Operation> {
        ops.iter().find(|o| o.id().hex() == hex)
    }

    fn single_parent<'o>(ops: &'o [Operation], op: &Operation) -> Option<&'o Operation> {
        if op.parent_ids().len() != 1 {
            return None;
        }
        Self::op_by_hex(ops, &op.parent_ids()[0].hex())
    }

    fn is_immutable_now(&mut self, ws: usize, commit_hex: &str) -> Option<bool> {
        let cwd = self.wss[ws].dir.clone();
        let revset = format!("immutable() & {commit_hex}");
        let args = ["log", "--ignore-working-copy", "--no-graph", "-r", &revset, "-T", "commit_id ++ \"\\n\""];
        let out = self.env.run(&cwd, &args);
        if !out.success() {
            return None;
        }
        Some(out.stdout.contains(commit_hex))
    }

    /// `new` must equal `target` in heads, local bookmarks, tags and
    /// working-copy commits; the only permitted difference is a new commit on
    /// top of the restored working-copy commit of the workspace the command
    /// ran in, when that commit is immutable.
    fn compare_views(
        &mut self,
        reader: &RepoReader,
        head: &Operation,
        new: &ViewSummary,
        target: &ViewSummary,
        ws: usize,
        prefix: &str,
        what: &str,
    ) -> Check {
        ensure!(
            new.bookmarks == target.bookmarks,
            format!("{prefix}.bookmarks"),
            "{what}: local bookmarks differ: got {:?}, expected {:?}",
            new.bookmarks,
            target.bookmarks
        );
        ensure!(new.tags == target.tags, format!("{prefix}.tags"), "{what}: tags differ: got {:?}, expected {:?}", new.tags, target.tags);
        let ws_name = self.wss[ws].name;
        let keys: BTreeSet<&String> = new.wc_commits.keys().chain(target.wc_commits.keys()).collect();
        let mut on_top: Option<(String, String)> = None;
        for k in keys {
            let n = new.wc_commits.get(k);
            let t = target.wc_commits.get(k);
            if n == t {
                continue;
            }
            let mut permitted = false;
            if k == ws_name
                && let (Some(n), Some(t)) = (n, t)
            {
                // candidate for the permitted difference
                let parents_and_tree = (|| -> Result<bool, String> {
                    let repo = reader.repo_at(head)?;
                    let nc = reader.commit(&repo, &CommitId::try_from_hex(n).ok_or("bad id")?)?;
                    let tc = reader.commit(&repo, &CommitId::try_from_hex(t).ok_or("bad id")?)?;
                    Ok(nc.parent_ids().len() == 1 && nc.parent_ids()[0].hex() == *t && nc.tree_ids() == tc.tree_ids())
                })();
                match parents_and_tree {
                    Ok(true) => match self.is_immutable_now(ws, t) {
                        Some(true) => {
                            permitted = true;
                            on_top = Some((n.clone(), t.clone()));
                            self.count("c41.new_commit_on_top_of_immutable_restored_wc");
                        }
                        Some(false) => {}
                        None => {
                            self.count("c41.immutability_unknown_skipped");
                            return Ok(());
                        }
                    },
                    Ok(false) => {}
                    Err(e) => {
                        self.aborted = Some(format!("reader: {e}"));
                        return Ok(());
                    }
                }
            }
            ensure!(
                permitted,
                format!("{prefix}.wc_commits"),
                "{what}: working-copy commit of workspace {k} is {n:?}, expected {t:?} (all: got {:?}, expected {:?})",
                new.wc_commits,
                target.wc_commits
            );
        }
        let mut expected_heads = target.heads.clone();
        if let Some((n, t)) = &on_top {
            expected_heads.remove(t);
            expected_heads.insert(n.clone());
        }
        ensure!(
            new.heads == expected_heads,
            format!("{prefix}.heads"),
            "{what}: visible heads are {:?}, expected {:?}",
            new.heads,
            expected_heads
        );
        Ok(())
    }

    fn view_of(&mut self, reader: &RepoReader, op: &Operation) -> Option<ViewSummary> {
        match reader.view_summary(op) {
            Ok(v) => Some(v),
            Err(e) => {
                self.aborted = Some(format!("reader: {e}"));
                None
            }
        }
    }

    fn check_c41(&mut self, reader: &RepoReader, ops: &[Operation], cmd: &Cmd, out: &Output) -> Check {
        if !matches!(cmd.kind, "undo" | "redo" | "op_restore" | "op_revert") || cmd.args[0] == "status" {
            return Ok(());
        }
        if !out.success() {
            self.count(&format!("c41.{}.command_failed", cmd.kind));
            return Ok(());
        }
        let heads = match reader.op_heads() {
            Ok(h) => h,
            Err(e) => {
                self.aborted = Some(format!("reader: {e}"));
                return Ok(());
            }
        };
        if heads.len() != 1 {
            self.count("c41.skipped_multiple_op_heads");
            return Ok(());
        }
        let Some(head) = Self::op_by_hex(ops, &heads[0].hex()).cloned() else {
            return Ok(());
        };
        let desc = head.metadata().description.clone();
        let nothing_changed = out.stderr.contains("Nothing changed.");
        let cmdline = format!("`jj {}` in {}", cmd.args.join(" "), self.wss[cmd.ws].name);
        let Some(new_view) = self.view_of(reader, &head) else { return Ok(()) };
        match cmd.kind {
            "op_restore" => {
                let wanted = &cmd.args[2];
                let Some(target) = ops.iter().find(|o| o.id().hex().starts_with(wanted.as_str())).cloned() else {
                    self.count("c41.op_restore.target_not_in_log");
                    return Ok(());
                };
                if !nothing_changed {
                    ensure!(
                        desc == format!("{RESTORE_PREFIX}{}", target.id().hex()),
                        "op_restore.operation_recorded",
                        "{cmdline} succeeded but the head operation is {desc:?}"
                    );
                } else {
                    self.count("c41.op_restore.nothing_changed");
                }
                let Some(target_view) = self.view_of(reader, &target) else { return Ok(()) };
                let base_view = Self::single_parent(ops, &head).and_then(|p| reader.view_summary(p).ok());
                if cmd.args.iter().any(|a| a == "remote-tracking") {
                    // `--what remote-tracking`: nothing of the repo state (visible
                    // commits, local bookmarks, tags, working-copy pointers) may change.
                    if let Some(base) = &base_view
                        && !nothing_changed
                    {
                        self.compare_views(reader, &head, &new_view, base, cmd.ws, "op_restore_remote_tracking_only", &cmdline)?;
                        self.count("c41.op_restore.remote_tracking_only_checked");
                    }
                    return Ok(());
                }
                if cmd.args.iter().any(|a| a == "repo") {
                    self.count("c41.op_restore.what_repo");
                }
                self.compare_views(reader, &head, &new_view, &target_view, cmd.ws, "op_restore", &cmdline)?;
                self.count("c41.op_restore.checked");
                if base_view.is_some_and(|b| b != target_view) && !nothing_changed {
                    self.nontrivial = true;
                    self.count("c41.op_restore.checked_view_really_changed");
                }
            }
            "undo" | "redo" => {
                let (prefix, other_prefix) = if cmd.kind == "undo" { (UNDO_PREFIX, REDO_PREFIX) } else { (REDO_PREFIX, UNDO_PREFIX) };
                let _ = other_prefix;
                if nothing_changed && !desc.starts_with(prefix) {
                    self.count(&format!("c41.{}.nothing_changed", cmd.kind));
                    return Ok(());
                }
                ensure!(
                    desc.starts_with(prefix) || nothing_changed,
                    format!("{}.operation_recorded", cmd.kind),
                    "{cmdline} succeeded but the head operation is {desc:?}"
                );
                if nothing_changed {
                    self.count(&format!("c41.{}.nothing_changed", cmd.kind));
                    return Ok(());
                }
                // P: the operation the command started from (after the snapshot, if any)
                let Some(p) = Self::single_parent(ops, &head).cloned() else {
                    self.count("c41.skipped_no_single_parent");
                    return Ok(());
                };
                // Our own implementation of the documented stack rule.
                let lookup = |hex: &str| -> Option<Operation> { Self::op_by_hex(ops, hex).cloned() };
                let mut t = p.clone();
                let mut stacked = false;
                if let Some(h) = p.metadata().description.strip_prefix(prefix) {
                    stacked = true;
                    match lookup(h) {
                        Some(op) => t = op,
                        None => {
                            self.count("c41.skipped_stack_target_not_in_log");
                            return Ok(());
                        }
                    }
                }
                if cmd.kind == "redo" {
                    ensure!(
                        t.metadata().description.starts_with(UNDO_PREFIX),
                        "redo.only_after_undo",
                        "{cmdline} succeeded although the operation to redo ({:?}) is not an undo operation",
                        t.metadata().description
                    );
                }
                let Some(mut tp) = Self::single_parent(ops, &t).cloned() else {
                    return fail(
                        &format!("{}.target_has_single_parent", cmd.kind),
                        format!("{cmdline} succeeded although the operation to undo has {} parents", t.parent_ids().len()),
                    );
                };
                if let Some(h2) = tp.metadata().description.strip_prefix(prefix) {
                    match lookup(h2) {
                        Some(op) => tp = op,
                        None => {
                            self.count("c41.skipped_stack_target_not_in_log");
                            return Ok(());
                        }
                    }
                }
                ensure!(
                    desc == format!("{prefix}{}", tp.id().hex()),
                    format!("{}.target_named", cmd.kind),
                    "{cmdline}: head operation is {desc:?}, the documented rule gives target {} (started from {:?})",
                    tp.id().hex(),
                    p.metadata().description
                );
                let Some(target_view) = self.view_of(reader, &tp) else { return Ok(()) };
                let Some(p_view) = self.view_of(reader, &p) else { return Ok(()) };
                self.compare_views(reader, &head, &new_view, &target_view, cmd.ws, cmd.kind, &cmdline)?;
                self.count(&format!("c41.{}.checked", cmd.kind));
                if stacked {
                    self.count(&format!("c41.{}.checked_repeated", cmd.kind));
                }
                if p.metadata().is_snapshot {
                    self.count(&format!("c41.{}.checked_latest_op_was_snapshot", cmd.kind));
                }
                if p_view != target_view {
                    self.nontrivial = true;
                }
            }
            "op_revert" => {
                if nothing_changed && !desc.starts_with(REVERT_PREFIX) {
                    self.count("c41.op_revert.nothing_changed");
                    return Ok(());
                }
                ensure!(
                    desc.starts_with(REVERT_PREFIX),
                    "op_revert.operation_recorded",
                    "{cmdline} succeeded but the head operation is {desc:?}"
                );
                let x_hex = desc[REVERT_PREFIX.len()..].to_owned();
                let (Some(x), Some(p)) = (Self::op_by_hex(ops, &x_hex).cloned(), Self::single_parent(ops, &head).cloned()) else {
                    self.count("c41.skipped_no_single_parent");
                    return Ok(());
                };
                if cmd.args[2] != "@" {
                    ensure!(
                        x_hex.starts_with(cmd.args[2].as_str()),
                        "op_revert.target_named",
                        "{cmdline}: head operation is {desc:?}"
                    );
                }
                let Some(xp) = Self::single_parent(ops, &x).cloned() else {
                    return fail("op_revert.target_has_single_parent", format!("{cmdline} succeeded on an operation with {} parents", x.parent_ids().len()));
                };
                let (Some(a), Some(b), Some(c)) = (self.view_of(reader, &xp), self.view_of(reader, &x), self.view_of(reader, &p)) else {
                    return Ok(());
                };
                if x.id() == p.id() {
                    // reverting the latest operation: the view before it
                    self.compare_views(reader, &head, &new_view, &a, cmd.ws, "op_revert.latest", &cmdline)?;
                    self.count("c41.op_revert.checked_latest");
                    if a != b {
                        self.nontrivial = true;
                    }
                } else if a.heads == b.heads && a.wc_commits == b.wc_commits && b.heads == c.heads && b.wc_commits == c.wc_commits {
                    // SOUNDNESS: non-overlapping changes only. X and everything
                    // after it changed only bookmarks/tags (no commit was
                    // rewritten, so no reference is moved by rebasing); keys
                    // changed both by X and later are not checked.
                    let mut expected = c.clone();
                    let mut got = new_view.clone();
                    let mut checked_keys = 0;
                    fn merge_keys(
                        a: &BTreeMap<String, (Vec<String>, Vec<String>)>,
                        b: &BTreeMap<String, (Vec<String>, Vec<String>)>,
                        c: &BTreeMap<String, (Vec<String>, Vec<String>)>,
                        expected: &mut BTreeMap<String, (Vec<String>, Vec<String>)>,
                        got: &mut BTreeMap<String, (Vec<String>, Vec<String>)>,
                        checked: &mut usize,
                    ) {
                        let keys: BTreeSet<String> = a.keys().chain(b.keys()).cloned().collect();
                        for k in keys {
                            if a.get(&k) == b.get(&k) {
                                continue;
                            }
                            if c.get(&k) == b.get(&k) {
                                match a.get(&k) {
                                    Some(v) => {
                                        expected.insert(k.clone(), v.clone());
                                    }
                                    None => {
                                        expected.remove(&k);
                                    }
                                }
                                *checked += 1;
                            } else {
                                expected.remove(&k);
                                got.remove(&k);
                            }
                        }
                    }
                    merge_keys(&a.bookmarks, &b.bookmarks, &c.bookmarks, &mut expected.bookmarks, &mut got.bookmarks, &mut checked_keys);
                    merge_keys(&a.tags, &b.tags, &c.tags, &mut expected.tags, &mut got.tags, &mut checked_keys);
                    self.compare_views(reader, &head, &got, &expected, cmd.ws, "op_revert.refs_only", &cmdline)?;
                    self.count("c41.op_revert.checked_refs_only");
                    if checked_keys > 0 {
                        self.nontrivial = true;
                    }
                } else {
                    self.count("c41.op_revert.overlapping_not_checked");
                }
            }
            _ => {}
        }
        Ok(())
    }

    // -----------------------------------------------------------------------
    // C42

    fn check_c42(&mut self, reader: &RepoReader, new_ops: &[Operation], cmd: &Cmd, immutable_before: &[CommitInfo], listing_ok_before: bool) -> Check {
        if cmd.ignore_immutable {
            self.count("c42.skipped_ignore_immutable");
            return Ok(());
        }
        if !listing_ok_before || !self.listing_ok {
            self.count("c42.skipped_listing_unavailable");
            return Ok(());
        }
        let visible: HashSet<&str> = self.commits.iter().map(|c| c.id.as_str()).collect();
        let non_root = immutable_before.iter().filter(|c| !c.root).count();
        for c in immutable_before {
            if visible.contains(c.id.as_str()) {
                continue;
            }
            // The same failure mode gets its own signature when the hidden
            // commit is an empty commit without description (the kind of
            // commit jj abandons automatically when a workspace leaves it).
            let mut clause = if c.empty && !c.described { "immutable_commit_stays_visible.discardable" } else { "immutable_commit_stays_visible" };
            // Stale-working-copy recovery snapshots on top of the working
            // copy's last known operation and merges the result with the
            // head: a commit made immutable after that operation is amended
            // by the snapshot. Seen as a merge operation plus a snapshot
            // operation that moved a workspace away from this commit.
            let merged = new_ops.iter().any(|o| o.parent_ids().len() > 1);
            let amended_by_snapshot = new_ops.iter().any(|s| {
                if !s.metadata().is_snapshot || s.parent_ids().len() != 1 {
                    return false;
                }
                let Ok(parent) = reader.operation(&s.parent_ids()[0]) else { return false };
                let (Ok(vp), Ok(vs)) = (reader.view_summary(&parent), reader.view_summary(s)) else { return false };
                vp.wc_commits.iter().any(|(ws, w0)| *w0 == c.id && vs.wc_commits.get(ws).is_some_and(|w1| *w1 != c.id))
            });
            if merged && amended_by_snapshot {
                clause = "immutable_commit_stays_visible.snapshot_taken_at_older_operation";
            }
            // An empty, undescribed working-copy commit is abandoned when its
            // workspace moves off it (MutableRepo::edit/check_out). Should that
            // ever hide an immutable commit it gets its own signature: the commit was some
            // workspace's working-copy commit, an operation of this command
            // moved that workspace elsewhere, and no visible commit carries
            // its change id (it was not rewritten).
            let left_by_workspace = new_ops.iter().any(|s| {
                if s.parent_ids().len() != 1 {
                    return false;
                }
                let Ok(parent) = reader.operation(&s.parent_ids()[0]) else { return false };
                let (Ok(vp), Ok(vs)) = (reader.view_summary(&parent), reader.view_summary(s)) else { return false };
                vp.wc_commits.iter().any(|(ws, w0)| *w0 == c.id && vs.wc_commits.get(ws).is_none_or(|w1| *w1 != c.id))
            });
            let change_gone = !self.commits.iter().any(|k| k.change == c.change);
            if std::env::var_os("VERIF_DEBUG").is_some() {
                eprintln!("c42 debug: new_ops={} merged={merged} amended={amended_by_snapshot} left={left_by_workspace} gone={change_gone} empty={} described={}", new_ops.len(), c.empty, c.described);
                for s in new_ops {
                    eprintln!("  op {} parents {} snapshot {} wc {:?}", s.id().hex(), s.parent_ids().len(), s.metadata().is_snapshot, reader.view_summary(s).map(|v| v.wc_commits));
                }
            }
            if c.empty && !c.described && left_by_workspace && change_gone && !(merged && amended_by_snapshot) {
                clause = "immutable_commit_stays_visible.discardable_wc_commit_abandoned_when_workspace_left";
            }
            return fail(
                clause,
                format!(
                    "commit {} (change {}) was immutable (immutable_heads = {}) before `jj {}` in {}; after the command it is no \
                     longer visible",
                    &c.id[..12],
                    &c.change[..12],
                    self.imm_config,
                    cmd.args.join(" "),
                    self.wss[cmd.ws].name
                ),
            );
        }
        self.count("c42.checked_commands");
        self.ctx.count_n("c42.checked_immutable_commits", immutable_before.len() as u64);
        if non_root > 0 {
            self.count("c42.checked_commands_with_non_root_immutable");
        }
        // snapshots taken by this command on an immutable working-copy commit
        let imm_ids: HashSet<&str> = immutable_before.iter().map(|c| c.id.as_str()).collect();
        for s in new_ops {
            if !s.metadata().is_snapshot || s.parent_ids().len() != 1 {
                continue;
            }
            let Ok(parent) = reader.operation(&s.parent_ids()[0]) else { continue };
            let (Ok(vp), Ok(vs)) = (reader.view_summary(&parent), reader.view_summary(s)) else { continue };
            for (ws_name, w1) in &vs.wc_commits {
                let Some(w0) = vp.wc_commits.get(ws_name) else { continue };
                if w0 == w1 || !imm_ids.contains(w0.as_str()) {
                    continue;
                }
                let parents = (|| -> Result<Vec<String>, String> {
                    let repo = reader.repo_at(s)?;
                    let c = reader.commit(&repo, &CommitId::try_from_hex(w1).ok_or("bad id")?)?;
                    Ok(c.parent_ids().iter().map(|p| p.hex()).collect())
                })();
                let Ok(parents) = parents else { continue };
                ensure!(
                    parents == vec![w0.clone()],
                    "snapshot_on_immutable_creates_child",
                    "snapshot of workspace {ws_name} during `jj {}`: the working-copy commit {} was immutable, the new \
                     working-copy commit {} has parents {:?} instead of being a new child of it",
                    cmd.args.join(" "),
                    &w0[..12],
                    &w1[..12],
                    parents
                );
                self.count("c42.snapshot_on_immutable_wc_created_child");
                self.nontrivial = true;
            }
        }
        Ok(())
    }
}

fn run_prop(ctx: &Ctx, prop: Prop) -> i32 {
    let (n, steps) = match prop {
        // One jj invocation costs 0.3-1 s (debug binary); quick runs one
        // sequence per worker thread.
        Prop::C40 => (ctx.tier().pick(16, 160), ctx.tier().pick(20, 24)),
        Prop::C41 => (ctx.tier().pick(48, 320), ctx.tier().pick(20, 24)),
        Prop::C42 => (ctx.tier().pick(16, 160), ctx.tier().pick(14, 22)),
    };
    let base = scratch_dir(prop.name());
    par_cases(ctx, n, threads(), |i, cs, rng| {
        let dir = base.join(format!("s{i}"));
        std::fs::remove_dir_all(&dir).ok();
        std::fs::create_dir_all(&dir).unwrap();
        let transcript: Rc<RefCell<Vec<String>>> = Rc::new(RefCell::new(vec![]));
        let mut sim = Sim::new(ctx, prop, &dir, transcript.clone());
        let t2 = transcript.clone();
        run_case(ctx, i, cs, move || json!({"transcript": *t2.borrow()}), || sim.run(rng, steps));
        if let Some(reason) = &sim.aborted {
            ctx.inconclusive(&format!("sequence {i} (seed {cs}) aborted: {}", truncate(reason, 400)));
        }
        let lines = transcript.borrow();
        let mut nontrivial = sim.nontrivial;
        if prop == Prop::C42 {
            // non-trivial: some command was refused because its target is
            // immutable, or a snapshot happened on an immutable @
            nontrivial |= lines.iter().any(|l| l.contains("is immutable"));
        }
        ctx.case(stable_hash(&*lines), nontrivial);
        ctx.count_n("commands_run", lines.iter().filter(|l| l.contains("] jj ")).count() as u64);
        if nontrivial {
            ctx.sample(|| json!({"transcript": lines.iter().take(40).collect::<Vec<_>>()}));
        }
        drop(lines);
        std::fs::remove_dir_all(&dir).ok();
    });
    std::fs::remove_dir_all(&base).ok();
    ctx.finish(8)
}

pub fn run_c40(ctx: &Ctx) -> i32 {
    ctx.set_rule(
        "random sequences of jj commands (new, edit, describe, commit, squash, split, abandon, rebase, restore, duplicate, \
         absorb, next/prev, undo, redo, op restore, op revert, workspace add / forget / update-stale, commands rewriting the \
         other workspace's working-copy commit, commands with --at-op) in 1-2 workspaces of a git-backed repo, interleaved with \
         random file edits (write/append/delete/chmod/symlink/move over 7 paths incl. file<->directory swaps, contents from a \
         6-line pool); failing commands included. NON-TRIVIAL: at least one file state produced by the edit script left the \
         disk during a command and was found in some operation's working-copy commit. DISTINCT: hash of the full transcript \
         (commands, outcomes, edits).",
    );
    ctx.assume("mutating commands are never run with --ignore-working-copy (the user explicitly asks jj not to look at the working copy)");
    ctx.assume("no .gitignore / files over snapshot.max-new-file-size are generated: every file on disk is a non-ignored file");
    ctx.assume("operations are never abandoned (`op abandon`, `util gc` excluded): the property speaks about the operation log");
    ctx.assume(
        "materialized conflicts (bytes with conflict markers written by jj, possibly edited) are stored parsed, not verbatim; they \
         are exempt (counted under c40.exempt.*); unedited content written by jj itself is not a working-copy change",
    );
    run_prop(ctx, Prop::C40)
}

pub fn run_c41(ctx: &Ctx) -> i32 {
    ctx.set_rule(
        "random command sequences (new, edit, describe, commit, squash, split, abandon, rebase, restore, bookmark and tag edits, \
         workspace add, making the other workspace's @ immutable) with random file edits, 1-2 workspaces, random \
         immutable_heads() configuration, with undo / redo / op restore <random op> / op revert <random op> at random points \
         (about 40% of the commands). NON-TRIVIAL: at least one checked undo/redo/restore/revert whose target view differs \
         from the view it started from. DISTINCT: hash of the full transcript.",
    );
    ctx.assume("the expected undo/redo target is computed from the operation log with our own implementation of the documented stack rule");
    ctx.assume("op revert is checked when it reverts the latest operation, or when only bookmarks/tags changed since (non-overlapping keys)");
    ctx.assume("remote-tracking bookmarks are not compared (no remotes in this workload; the statement does not mention them)");
    run_prop(ctx, Prop::C41)
}

pub fn run_c42(ctx: &Ctx) -> i32 {
    ctx.set_rule(
        "random rewriting commands (describe, abandon, rebase -s/-r/-b -d/-A/-B, squash, split, restore, edit, new -A/-B, \
         duplicate -A/-B, parallelize, absorb, metaedit, simplify-parents, file chmod, revert, next/prev --edit, commit, workspace \
         forget) on random targets (half of them chosen among immutable commits), random file edits (also while @ is immutable \
         in the second workspace), bookmark/tag edits that move the definition; immutable_heads() in {builtin, builtin with \
         trunk()=main, none(), tags(), bookmarks(), bookmarks()|tags(), description(glob:\"imm*\"), a specific commit, tags() | a \
         specific commit}. NON-TRIVIAL: at least one command refused because of an immutable commit, or a snapshot on an \
         immutable @. DISTINCT: hash of the full transcript.",
    );
    ctx.assume("undo / redo / op restore / op revert / git fetch / --at-op are excluded (they hide by time travel, not by rewriting)");
    ctx.assume("commands run with --ignore-immutable are not checked");
    ctx.assume("the immutable set is evaluated by jj itself (`immutable` template keyword = membership in immutable()), revset engine monitored by C19");
    run_prop(ctx, Prop::C42)
}
