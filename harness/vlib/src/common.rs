//! Shared machinery: PRNG, case seeding, evidence / replay writers, verdicts.

use std::collections::BTreeMap;
use std::collections::HashSet;
use std::hash::Hash;
use std::hash::Hasher;
use std::panic::AssertUnwindSafe;
use std::path::PathBuf;
use std::sync::Mutex;
use std::sync::atomic::AtomicBool;
use std::sync::atomic::AtomicU64;
use std::sync::atomic::Ordering;
use std::time::Instant;

use serde_json::Value;
use serde_json::json;

pub const VERIF_ROOT: &str = "/verif";

// ---------------------------------------------------------------------------
// PRNG

/// xoshiro256** seeded through SplitMix64.
#[derive(Clone, Debug)]
pub struct Rng {
    s: [u64; 4],
}

pub fn splitmix(x: &mut u64) -> u64 {
    *x = x.wrapping_add(0x9E37_79B9_7F4A_7C15);
    let mut z = *x;
    z = (z ^ (z >> 30)).wrapping_mul(0xBF58_476D_1CE4_E5B9);
    z = (z ^ (z >> 27)).wrapping_mul(0x94D0_49BB_1331_11EB);
    z ^ (z >> 31)
}

impl Rng {
    pub fn new(seed: u64) -> Self {
        let mut x = seed;
        let s = [
            splitmix(&mut x),
            splitmix(&mut x),
            splitmix(&mut x),
            splitmix(&mut x),
        ];
        Self { s }
    }

    pub fn next_u64(&mut self) -> u64 {
        let result = self.s[1].wrapping_mul(5).rotate_left(7).wrapping_mul(9);
        let t = self.s[1] << 17;
        self.s[2] ^= self.s[0];
        self.s[3] ^= self.s[1];
        self.s[1] ^= self.s[2];
        self.s[0] ^= self.s[3];
        self.s[2] ^= t;
        self.s[3] = self.s[3].rotate_left(45);
        result
    }

    /// Uniform in `0..n` (`n > 0`).
    pub fn below(&mut self, n: usize) -> usize {
        assert!(n > 0);
        (self.next_u64() % (n as u64)) as usize
    }

    /// Uniform in `lo..=hi`.
    pub fn range(&mut self, lo: usize, hi: usize) -> usize {
        lo + self.below(hi - lo + 1)
    }

    pub fn range_i64(&mut self, lo: i64, hi: i64) -> i64 {
        lo + (self.next_u64() % ((hi - lo + 1) as u64)) as i64
    }

    /// True with probability `num/den`.
    pub fn chance(&mut self, num: usize, den: usize) -> bool {
        self.below(den) < num
    }

    pub fn bool(&mut self) -> bool {
        self.next_u64() & 1 == 1
    }

    pub fn pick<'a, T>(&mut self, items: &'a [T]) -> &'a T {
        &items[self.below(items.len())]
    }

    pub fn shuffle<T>(&mut self, items: &mut [T]) {
        for i in (1..items.len()).rev() {
            let j = self.below(i + 1);
            items.swap(i, j);
        }
    }

    /// Picks an index according to integer weights.
    pub fn weighted(&mut self, weights: &[usize]) -> usize {
        let total: usize = weights.iter().sum();
        let mut x = self.below(total);
        for (i, w) in weights.iter().enumerate() {
            if x < *w {
                return i;
            }
            x -= w;
        }
        unreachable!()
    }

    pub fn fork(&mut self) -> Self {
        Self::new(self.next_u64())
    }
}

/// Seed of case `index` of property `prop` under the global seed.
pub fn case_seed(seed: u64, prop: &str, index: u64) -> u64 {
    let mut x = seed ^ 0x5EED_0000_0000_0000;
    for b in prop.bytes() {
        x = x.wrapping_mul(0x100_0000_01B3) ^ u64::from(b);
    }
    x ^= index.wrapping_mul(0x9E37_79B9_7F4A_7C15);
    splitmix(&mut x)
}

/// Stable 64-bit hash (FNV-1a) of anything hashable, for case dedup.
pub struct Fnv(u64);
impl Default for Fnv {
    fn default() -> Self {
        Self(0xcbf2_9ce4_8422_2325)
    }
}
impl Hasher for Fnv {
    fn finish(&self) -> u64 {
        self.0
    }
    fn write(&mut self, bytes: &[u8]) {
        for b in bytes {
            self.0 ^= u64::from(*b);
            self.0 = self.0.wrapping_mul(0x100_0000_01B3);
        }
    }
}
pub fn stable_hash<T: Hash + ?Sized>(value: &T) -> u64 {
    let mut h = Fnv::default();
    value.hash(&mut h);
    h.finish()
}

// ---------------------------------------------------------------------------
// Tier / arguments

#[derive(Clone, Copy, Debug, PartialEq, Eq)]
pub enum Tier {
    Quick,
    Thorough,
}

impl Tier {
    pub fn as_str(self) -> &'static str {
        match self {
            Self::Quick => "quick",
            Self::Thorough => "thorough",
        }
    }
    /// Chooses between the quick and thorough value.
    pub fn pick<T>(self, quick: T, thorough: T) -> T {
        match self {
            Self::Quick => quick,
            Self::Thorough => thorough,
        }
    }
}

#[derive(Clone, Debug)]
pub struct Args {
    pub property: String,
    pub tier: Tier,
    pub seed: u64,
    pub replay: Option<PathBuf>,
    pub extra: Vec<String>,
}

pub fn parse_args(argv: &[String]) -> Args {
    let property = argv.first().cloned().unwrap_or_default();
    let mut tier = match std::env::var("VERIF_TIER").as_deref() {
        Ok("thorough") => Tier::Thorough,
        _ => Tier::Quick,
    };
    let mut replay = None;
    let mut extra = vec![];
    let mut i = 1;
    while i < argv.len() {
        match argv[i].as_str() {
            "quick" => tier = Tier::Quick,
            "thorough" => tier = Tier::Thorough,
            "--replay" => {
                i += 1;
                replay = argv.get(i).map(PathBuf::from);
            }
            other => extra.push(other.to_owned()),
        }
        i += 1;
    }
    let seed = std::env::var("VERIF_SEED")
        .ok()
        .and_then(|s| s.trim().parse::<i64>().ok())
        .map_or(0, |v| v as u64);
    Args {
        property,
        tier,
        seed,
        replay,
        extra,
    }
}

// ---------------------------------------------------------------------------
// Context: counters, evidence, verdict

#[derive(Clone, Debug)]
struct KnownFinding {
    property: String,
    signature: String,
    status: String,
    description: String,
}

fn load_known_findings() -> Vec<KnownFinding> {
    let path = format!("{VERIF_ROOT}/known_findings.json");
    let Ok(text) = std::fs::read_to_string(path) else {
        return vec![];
    };
    let Ok(value) = serde_json::from_str::<Value>(&text) else {
        return vec![];
    };
    value["findings"]
        .as_array()
        .map(|items| {
            items
                .iter()
                .map(|f| KnownFinding {
                    property: f["property"].as_str().unwrap_or("").to_owned(),
                    signature: f["signature"].as_str().unwrap_or("").to_owned(),
                    status: f["status"].as_str().unwrap_or("").to_owned(),
                    description: f["description"].as_str().unwrap_or("").to_owned(),
                })
                .collect()
        })
        .unwrap_or_default()
}

pub struct Ctx {
    pub args: Args,
    pub level: &'static str,
    start: Instant,
    evaluations: AtomicU64,
    distinct: Mutex<HashSet<u64>>,
    counters: Mutex<BTreeMap<String, u64>>,
    samples: Mutex<Vec<Value>>,
    max_samples: usize,
    violations: AtomicU64,
    max_violation_reports: u64,
    inconclusive: Mutex<Vec<String>>,
    known: Vec<KnownFinding>,
    known_hit: Mutex<HashSet<String>>,
    pub stop: AtomicBool,
    rule: Mutex<String>,
    extra: Mutex<BTreeMap<String, Value>>,
    assumptions: Mutex<Vec<String>>,
    exhaustive: AtomicBool,
}

impl Ctx {
    pub fn new(args: Args, level: &'static str) -> Self {
        Self {
            args,
            level,
            start: Instant::now(),
            evaluations: AtomicU64::new(0),
            distinct: Mutex::new(HashSet::new()),
            counters: Mutex::new(BTreeMap::new()),
            samples: Mutex::new(vec![]),
            max_samples: 4,
            violations: AtomicU64::new(0),
            max_violation_reports: 5,
            inconclusive: Mutex::new(vec![]),
            known: load_known_findings(),
            known_hit: Mutex::new(HashSet::new()),
            stop: AtomicBool::new(false),
            rule: Mutex::new(String::new()),
            extra: Mutex::new(BTreeMap::new()),
            assumptions: Mutex::new(vec![]),
            exhaustive: AtomicBool::new(false),
        }
    }

    pub fn prop(&self) -> &str {
        &self.args.property
    }
    pub fn tier(&self) -> Tier {
        self.args.tier
    }
    pub fn seed(&self) -> u64 {
        self.args.seed
    }
    pub fn elapsed_s(&self) -> f64 {
        self.start.elapsed().as_secs_f64()
    }
    pub fn set_rule(&self, rule: &str) {
        *self.rule.lock().unwrap() = rule.to_owned();
    }
    pub fn set_exhaustive(&self, v: bool) {
        self.exhaustive.store(v, Ordering::SeqCst);
    }
    pub fn assume(&self, text: &str) {
        self.assumptions.lock().unwrap().push(text.to_owned());
    }
    pub fn set_extra(&self, key: &str, value: Value) {
        self.extra.lock().unwrap().insert(key.to_owned(), value);
    }

    /// Counts one evaluated case. `hash` identifies the case up to
    /// canonical equality; `nontrivial` is the property-specific rule.
    pub fn case(&self, hash: u64, nontrivial: bool) {
        self.evaluations.fetch_add(1, Ordering::Relaxed);
        if nontrivial {
            self.distinct.lock().unwrap().insert(hash);
        }
    }

    pub fn evaluations(&self) -> u64 {
        self.evaluations.load(Ordering::Relaxed)
    }

    pub fn count(&self, key: &str) {
        self.count_n(key, 1);
    }
    pub fn count_n(&self, key: &str, n: u64) {
        *self
            .counters
            .lock()
            .unwrap()
            .entry(key.to_owned())
            .or_insert(0) += n;
    }
    pub fn counter(&self, key: &str) -> u64 {
        self.counters
            .lock()
            .unwrap()
            .get(key)
            .copied()
            .unwrap_or(0)
    }
    pub fn max(&self, key: &str, value: u64) {
        let mut counters = self.counters.lock().unwrap();
        let entry = counters.entry(key.to_owned()).or_insert(0);
        if value > *entry {
            *entry = value;
        }
    }

    /// Offers a sample; the first few are kept.
    pub fn sample(&self, make: impl FnOnce() -> Value) {
        let mut samples = self.samples.lock().unwrap();
        if samples.len() < self.max_samples {
            samples.push(make());
        }
    }
    pub fn wants_sample(&self) -> bool {
        self.samples.lock().unwrap().len() < self.max_samples
    }

    pub fn inconclusive(&self, reason: &str) {
        let mut list = self.inconclusive.lock().unwrap();
        if list.len() < 20 {
            list.push(reason.to_owned());
        }
        println!("INCONCLUSIVE property={} reason={}", self.prop(), reason);
    }

    /// Reports a violation, unless `signature` is a listed known finding.
    /// `witness` must contain everything needed to replay.
    pub fn violation(&self, signature: &str, message: &str, witness: Value) {
        for k in &self.known {
            if k.property == self.prop() && k.status == "known" && k.signature == signature {
                if self.known_hit.lock().unwrap().insert(signature.to_owned()) {
                    println!(
                        "KNOWN-FINDING: property={} {} ({})",
                        self.prop(),
                        k.signature,
                        k.description
                    );
                }
                self.count("known_finding_hits");
                return;
            }
        }
        let n = self.violations.fetch_add(1, Ordering::SeqCst);
        if n >= self.max_violation_reports {
            return;
        }
        let dir = format!("{VERIF_ROOT}/replays");
        std::fs::create_dir_all(&dir).ok();
        let path = format!(
            "{dir}/{}-{}-seed{}-{}.json",
            self.prop(),
            self.tier().as_str(),
            self.seed(),
            n
        );
        let doc = json!({
            "property": self.prop(),
            "tier": self.tier().as_str(),
            "seed": self.seed(),
            "signature": signature,
            "message": message,
            "witness": witness,
        });
        std::fs::write(&path, serde_json::to_string_pretty(&doc).unwrap()).ok();
        println!("VIOLATION property={} replay={}", self.prop(), path);
        println!("  {}", truncate(message, 2000));
    }

    pub fn violations(&self) -> u64 {
        self.violations.load(Ordering::SeqCst)
    }

    /// Writes the evidence file and returns the process exit code.
    /// `floor` is the minimum number of distinct non-trivial cases for a
    /// pass; fewer is inconclusive.
    pub fn finish(&self, floor: u64) -> i32 {
        let distinct = self.distinct.lock().unwrap().len() as u64;
        let violations = self.violations();
        let mut inconclusive = self.inconclusive.lock().unwrap().clone();
        // A replay runs one case: the floor does not apply.
        if violations == 0 && distinct < floor.max(2) && self.args.replay.is_none() {
            let reason = format!(
                "only {distinct} distinct non-trivial cases observed, floor is {floor}"
            );
            println!("INCONCLUSIVE property={} reason={}", self.prop(), reason);
            inconclusive.push(reason);
        }
        let mut coverage = serde_json::Map::new();
        coverage.insert("evaluations".into(), json!(self.evaluations().max(1)));
        coverage.insert("distinct_nontrivial".into(), json!(distinct));
        coverage.insert("rule".into(), json!(*self.rule.lock().unwrap()));
        coverage.insert(
            "samples".into(),
            Value::Array(self.samples.lock().unwrap().clone()),
        );
        coverage.insert(
            "exhaustive".into(),
            json!(self.exhaustive.load(Ordering::SeqCst)),
        );
        let counters: serde_json::Map<String, Value> = self
            .counters
            .lock()
            .unwrap()
            .iter()
            .map(|(k, v)| (k.clone(), json!(v)))
            .collect();
        coverage.insert("observed".into(), Value::Object(counters));
        coverage.insert("inconclusive".into(), json!(inconclusive));
        for (k, v) in self.extra.lock().unwrap().iter() {
            coverage.insert(k.clone(), v.clone());
        }
        let doc = json!({
            "property_id": self.prop(),
            "tier": self.tier().as_str(),
            "seed": self.seed() as i64,
            "level": self.level,
            "coverage": Value::Object(coverage),
            "assumptions": *self.assumptions.lock().unwrap(),
            "wall_s": self.elapsed_s(),
            "violations": violations,
        });
        let dir = format!("{VERIF_ROOT}/evidence");
        std::fs::create_dir_all(&dir).ok();
        let path = format!("{dir}/{}.json", self.prop());
        let tmp = format!("{path}.tmp");
        std::fs::write(&tmp, serde_json::to_string_pretty(&doc).unwrap()).unwrap();
        std::fs::rename(&tmp, &path).unwrap();
        let code = if violations > 0 {
            1
        } else if !inconclusive.is_empty() {
            2
        } else {
            0
        };
        println!(
            "RESULT property={} tier={} seed={} evaluations={} distinct_nontrivial={} \
             violations={} inconclusive={} wall_s={:.1} exit={}",
            self.prop(),
            self.tier().as_str(),
            self.seed(),
            self.evaluations(),
            distinct,
            violations,
            inconclusive.len(),
            self.elapsed_s(),
            code
        );
        code
    }
}

pub fn truncate(s: &str, max: usize) -> String {
    if s.len() <= max {
        s.to_owned()
    } else {
        let mut end = max;
        while !s.is_char_boundary(end) {
            end -= 1;
        }
        format!("{}…[{} bytes]", &s[..end], s.len())
    }
}

// ---------------------------------------------------------------------------
// Panic classification

thread_local! {
    static LAST_PANIC: std::cell::RefCell<Option<(String, String)>> =
        const { std::cell::RefCell::new(None) };
    static QUIET_PANICS: std::cell::Cell<bool> = const { std::cell::Cell::new(false) };
}

/// Panic payload used by schedulers to emulate killing an actor thread.
pub struct KillSignal;

/// Installs a panic hook that records the location and message per thread.
pub fn install_panic_hook() {
    let default = std::panic::take_hook();
    std::panic::set_hook(Box::new(move |info| {
        let location = info
            .location()
            .map(|l| format!("{}:{}", l.file(), l.line()))
            .unwrap_or_default();
        let message = if let Some(s) = info.payload().downcast_ref::<&str>() {
            (*s).to_owned()
        } else if let Some(s) = info.payload().downcast_ref::<String>() {
            s.clone()
        } else if info.payload().downcast_ref::<KillSignal>().is_some() {
            "<kill>".to_owned()
        } else {
            "<non-string panic payload>".to_owned()
        };
        let is_kill = message == "<kill>";
        LAST_PANIC.with(|p| *p.borrow_mut() = Some((location, message)));
        if !is_kill && !QUIET_PANICS.with(|q| q.get()) {
            default(info);
        }
    }));
}

#[derive(Debug)]
pub enum Caught<T> {
    Ok(T),
    /// The code under test (jj or a dependency) panicked.
    SubjectPanic { location: String, message: String },
    /// The harness itself panicked (a harness bug – inconclusive).
    HarnessPanic { location: String, message: String },
}

/// Runs `f`, classifying a panic by the source location it came from.
pub fn catch<T>(f: impl FnOnce() -> T) -> Caught<T> {
    QUIET_PANICS.with(|q| q.set(true));
    LAST_PANIC.with(|p| *p.borrow_mut() = None);
    let result = std::panic::catch_unwind(AssertUnwindSafe(f));
    QUIET_PANICS.with(|q| q.set(false));
    match result {
        Ok(v) => Caught::Ok(v),
        Err(_) => {
            let (location, message) = LAST_PANIC
                .with(|p| p.borrow_mut().take())
                .unwrap_or_default();
            if location.contains("harness/v") || location.starts_with("vlib/") || location.starts_with("vcli/") {
                Caught::HarnessPanic { location, message }
            } else {
                Caught::SubjectPanic { location, message }
            }
        }
    }
}

/// Signature of a panic in the code under test: source file (no line number,
/// so unrelated edits do not change it) plus the first line of the message.
pub fn panic_signature(location: &str, message: &str) -> String {
    let file = location.rsplit_once(':').map_or(location, |(f, _)| f);
    let first_line = message.lines().next().unwrap_or("");
    format!("panic@{file}|{}", truncate(first_line, 80))
}

/// A failed oracle clause.
#[derive(Debug, Clone)]
pub struct Fail {
    pub clause: String,
    pub message: String,
}

pub type Check = Result<(), Fail>;

pub fn fail(clause: &str, message: impl Into<String>) -> Check {
    Err(Fail {
        clause: clause.to_owned(),
        message: message.into(),
    })
}

#[macro_export]
macro_rules! ensure {
    ($cond:expr, $clause:expr, $($arg:tt)*) => {
        if !($cond) {
            return Err($crate::common::Fail {
                clause: ($clause).to_string(),
                message: format!($($arg)*),
            });
        }
    };
}

/// Runs one case's oracle under `catch` and reports the outcome.
/// `describe` renders the case for the replay file (lazily).
pub fn run_case(
    ctx: &Ctx,
    index: u64,
    case_seed: u64,
    describe: impl Fn() -> Value,
    oracle: impl FnOnce() -> Check,
) {
    match catch(oracle) {
        Caught::Ok(Ok(())) => {}
        Caught::Ok(Err(f)) => {
            ctx.violation(
                &f.clause,
                &format!("clause {}: {}", f.clause, f.message),
                json!({"case_index": index, "case_seed": case_seed, "case": describe(),
                       "clause": f.clause, "detail": f.message}),
            );
        }
        Caught::SubjectPanic { location, message } => {
            ctx.violation(
                &panic_signature(&location, &message),
                &format!("code under test panicked at {location}: {message}"),
                json!({"case_index": index, "case_seed": case_seed, "case": describe(),
                       "panic_location": location, "panic_message": message}),
            );
        }
        Caught::HarnessPanic { location, message } => {
            ctx.inconclusive(&format!(
                "harness panic at {location}: {} (case {index}, seed {case_seed})",
                truncate(&message, 300)
            ));
        }
    }
}

/// Runs `n` seeded cases on `threads` worker threads. `f(index, rng)`.
pub fn par_cases(
    ctx: &Ctx,
    n: u64,
    threads: usize,
    f: impl Fn(u64, u64, &mut Rng) + Sync,
) {
    // Replay of a single case: `--replay` file carries case_index.
    if let Some(path) = &ctx.args.replay {
        if let Ok(text) = std::fs::read_to_string(path)
            && let Ok(doc) = serde_json::from_str::<Value>(&text)
            && let Some(index) = doc["witness"]["case_index"].as_u64()
        {
            let seed = doc["seed"].as_u64().unwrap_or(ctx.seed());
            let cs = case_seed(seed, ctx.prop(), index);
            let mut rng = Rng::new(cs);
            f(index, cs, &mut rng);
            return;
        }
        ctx.inconclusive("replay file unreadable");
        return;
    }
    let next = AtomicU64::new(0);
    let deadline = watchdog_secs();
    std::thread::scope(|scope| {
        for _ in 0..threads.max(1) {
            scope.spawn(|| {
                loop {
                    let i = next.fetch_add(1, Ordering::Relaxed);
                    if i >= n || ctx.stop.load(Ordering::Relaxed) {
                        break;
                    }
                    if ctx.violations() >= 5 {
                        break;
                    }
                    if ctx.elapsed_s() > deadline {
                        if !ctx.stop.swap(true, Ordering::SeqCst) {
                            ctx.count("stopped_by_time_budget");
                        }
                        break;
                    }
                    let cs = case_seed(ctx.seed(), ctx.prop(), i);
                    let mut rng = Rng::new(cs);
                    f(i, cs, &mut rng);
                }
            });
        }
    });
}

/// Soft time budget in seconds after which case loops stop generating new
/// cases (what was done still counts; the floor decides pass/inconclusive).
pub fn watchdog_secs() -> f64 {
    std::env::var("VERIF_BUDGET_S")
        .ok()
        .and_then(|s| s.parse().ok())
        .unwrap_or(1.0e9)
}

pub fn threads() -> usize {
    std::env::var("VERIF_THREADS")
        .ok()
        .and_then(|s| s.parse().ok())
        .unwrap_or_else(|| {
            std::thread::available_parallelism()
                .map(|n| n.get())
                .unwrap_or(8)
        })
}

/// Per-process scratch directory (under TMPDIR).
pub fn scratch_dir(name: &str) -> PathBuf {
    let dir = std::env::temp_dir().join(format!("{name}-{}", std::process::id()));
    std::fs::create_dir_all(&dir).unwrap();
    dir
}
