#!/bin/bash
# Scratch worktree for an independent "breaker" agent: /tmp/mut/<id>/{repo,target,out}
set -eu
ID="${1:?usage: mut_workspace.sh <id>}"
W=/tmp/mut/$ID
mkdir -p "$W/out"
if [ ! -d "$W/repo" ]; then
  git -C /repo worktree add --detach "$W/repo" HEAD >/dev/null 2>&1
fi
if [ ! -d "$W/target" ] && [ -d /repo/target/debug ]; then
  mkdir -p "$W/target/debug"
  cp -r /repo/target/debug/deps /repo/target/debug/.fingerprint /repo/target/debug/build "$W/target/debug/" 2>/dev/null || true
  cp /repo/target/.rustc_info.json "$W/target/" 2>/dev/null || true
fi
echo "$W"
