#!/bin/bash
# Applies a seeded breaking change to /repo, runs the named checks (quick tier),
# and undoes the change straight afterwards.
#   usage: seeded_check.sh <seeded-dir> <ID> [<ID>...]      (env: VERIF_SEED, TIER)
# Prints one line per check: "<seeded> <ID> exit=<code> <VIOLATION line if any>".
set -u
DIR="${1:?usage: seeded_check.sh <seeded-dir> <ID>...}"; shift
DIR=$(realpath "$DIR"); PATCH="$DIR/patch.diff"
TIER="${TIER:-quick}"
if [ -n "$(git -C /repo status --porcelain --untracked-files=no)" ]; then
  echo "refusing: /repo has uncommitted changes" >&2; exit 2
fi
if ! git -C /repo apply --check "$PATCH" 2>/dev/null; then
  echo "patch does not apply: $PATCH" >&2; exit 2
fi
git -C /repo apply "$PATCH"
trap 'git -C /repo checkout -- . ' EXIT
for ID in "$@"; do
  # evidence written while a seeded change is applied must not replace the
  # evidence of the unchanged tree
  cp "/verif/evidence/$ID.json" "/tmp/evidence-$ID-$$.json" 2>/dev/null
  OUT=$(VERIF_WATCHDOG_S="${VERIF_WATCHDOG_S:-900}" /verif/check "$ID" "$TIER" 2>&1)
  CODE=$?
  LINE=$(echo "$OUT" | grep -m1 -A1 "^VIOLATION" | tr '\n' ' ' | cut -c1-300)
  [ -z "$LINE" ] && LINE=$(echo "$OUT" | grep -m1 -E "^(INCONCLUSIVE|RESULT)" | cut -c1-200)
  [ -f "/tmp/evidence-$ID-$$.json" ] && mv "/tmp/evidence-$ID-$$.json" "/verif/evidence/$ID.json"
  echo "$(basename "$DIR") $ID exit=$CODE $LINE"
done
