#!/bin/bash
# Creates an isolated workspace for building/validating one engine:
#   /tmp/vw/<name>/repo     git worktree of /repo (HEAD, hooks included)
#   /tmp/vw/<name>/harness  copy of /verif/harness with path deps -> that repo
#   /tmp/vw/<name>/target   own cargo target dir (seeded from /verif/target)
set -eu
NAME="${1:?usage: agent_workspace.sh <name>}"
W=/tmp/vw/$NAME
mkdir -p "$W/tmp" "/dev/shm/vw-$NAME"
if [ ! -d "$W/repo" ]; then
  git -C /repo worktree add --detach "$W/repo" HEAD >/dev/null 2>&1
fi
rm -rf "$W/harness"
cp -r /verif/harness "$W/harness"
sed -i "s|/repo/|$W/repo/|g" "$W/harness/vlib/Cargo.toml" "$W/harness/vcli/Cargo.toml"
sed -i "s|target-dir = .*|target-dir = \"$W/target\"|" "$W/harness/.cargo/config.toml"
if [ ! -d "$W/target" ] && [ -d /verif/target/debug ]; then
  mkdir -p "$W/target/debug"
  # Reuse compiled third-party dependencies (fingerprints of registry crates do
  # not depend on the workspace path).
  cp -r /verif/target/debug/deps /verif/target/debug/.fingerprint /verif/target/debug/build "$W/target/debug/" 2>/dev/null || true
  cp /verif/target/.rustc_info.json "$W/target/" 2>/dev/null || true
fi
echo "workspace ready: $W"
echo "  cd $W/harness"
echo "  export CARGO_TARGET_DIR=$W/target RUSTFLAGS='--cfg jj_vcs_jj_verif' CARGO_NET_OFFLINE=true TMPDIR=/dev/shm/vw-$NAME"
