#!/usr/bin/env python3
"""Regenerates /verif/MANIFEST.json from the table below and validates it."""
import json
import subprocess
import sys

VERIF = "/verif"

# id -> (technique, level text, level note)
CHECKS = {
    "C01": (
        "runtime differential monitor: denotation/idempotence/write-back oracle over exhaustive small and seeded random merges",
        "Runs the real Merge::simplify/flatten/update_from_simplified on every term list up to a bound (exhaustive) and on millions of seeded random flat, Option-valued and nested merges; an independent signed-count oracle checks denotation, no value on both sides, idempotence, polarity and write-back positions. Holds on the executions observed, exhaustive inside the stated bounds.",
        "Trusts Eq/Ord on u8 test values and the harness' own multiset arithmetic.",
    ),
    "C02": (
        "runtime differential monitor: counting-rule reference vs trivial_merge, exhaustive small + random large",
        "Every odd-length list up to the bound over a 4-value alphabet under both same-change settings (exhaustive) plus seeded random lists up to 41 terms is resolved by the real trivial_merge/resolve_trivial and compared with an independent counting reference; add/remove permutations must not change the answer.",
        "Reference is the counting definition cited in the property's quantifier; for >=3 surviving values it leaves the conflict unresolved (see DESIGN C02).",
    ),
    "C03": (
        "runtime monitor: partition/alternation/equality oracle over generated diffs, repeat-run and second-process determinism",
        "Runs the real ContentDiff (all tokenizers incl. refined chains and seeded random tokenizers, three comparators) on generated 1..5-input cases and checks that hunks partition every input contiguously, matching hunks are equal under the comparator, no hunk is empty on all sides, kinds alternate, hunks()==hunk_ranges(), and that rebuilding the diff (fresh RandomState each time, plus a second process) yields identical hunks.",
        "Whitespace normalisation reference is the harness' own; determinism is observed over 4 in-process rebuilds and one extra process per case prefix.",
    ),
    "C04": (
        "runtime differential monitor: whole-file cancellation law + independent per-hunk reference merge",
        "Real files::merge_hunks/merge/try_merge on generated 3/5/7-term merges (edits of a common base, planted identical terms, empty/binary, LF/CRLF) under both hunk levels and same-change settings; oracle: whole-file counting law, resolved-or-same-arity shape, agreement of the three entry points, and equality with a reference that re-diffs by line/word and applies the counting rule per hunk.",
        "Trusts ContentDiff hunk boundaries (monitored separately by C03) and the counting reference of C02.",
    ),
    "C05": (
        "runtime monitor: parse(materialize(conflict)) == merge hunks over generated conflicts, all marker styles",
        "Materializes generated 2..4-sided conflicts (marker look-alikes up to 20 chars, CRLF, stray CR, missing final newline, empty sides, labels) with every marker style and with the marker length chosen as checkout does or forced longer, parses the bytes back and requires exactly the hunks files::merge_hunks produced; writer and bytes forms must agree.",
        "Exact equality was probed silent on 390k conflicts before being adopted; labels contain no newline (as produced by jj).",
    ),
    "C30": (
        "runtime monitor: visit() soundness vs matches() over random matcher trees and path universes",
        "Builds random trees of Files/Prefix/Globs/Everything/Nothing under Union/Intersection/Difference (explicit combinators and via FilesetExpression::to_matcher), and for every matching universe path checks every ancestor directory's visit(): never Nothing, Specific lists the next component in the right set, AllRecursively implies every universe path below matches; matches() is also compared with a reference evaluator.",
        "Universe is finite (random + perturbations of paths named by the matcher); globs restricted to the forms of the reference matcher.",
    ),
    "C31": (
        "runtime differential monitor: reference fileset evaluator vs parsed expression",
        "Random fileset ASTs over all pattern kinds and operators are rendered to text (full or minimal parentheses), parsed by the real fileset::parse from a random cwd, compiled with to_matcher and compared path by path with a reference evaluator (exact, prefix, small glob matcher, ASCII case folding).",
        "Reference glob semantics are byte-wise (? and [set] consume one byte) like the regex jj compiles globs to; glob forms restricted to * ? [set] {a,b} and whole-component **.",
    ),
    "C32": (
        "runtime differential monitor: lexical path reference vs RepoPath conversions, round trips and confinement",
        "Random cwd/base/input triples (., .., doubled separators, unicode, absolute, outside the workspace) go through parse_fs_path/from_relative_path/to_fs_path/format+parse_file_path; a string-level lexical reference decides accept/reject and value; results never contain empty/./.. components, to_fs_path stays under base and round-trips.",
        "Symlinks are out of scope (conversion is lexical by design).",
    ),
    "C33": (
        "runtime monitor: bijection oracle export->parse and parse->export over random names",
        "Random bookmark/tag symbols (valid remote names per validate_remote_name) are exported with the real to_git_ref_name and parsed back with parse_git_ref, random git-valid ref names are parsed and exported again; both round trips must be identities and no two symbols may share a ref.",
        "Import direction restricted to ref names git/gix accept (gix::validate); uses the cfg-guarded re-export of the private functions.",
    ),
}

LEVEL = {"C15": "fault_enumeration"}

NOT_YET = "monitor not built yet in this revision of /verif (planned in DESIGN.md section 5); not claimed until it runs silent and sound"


def main():
    props = [json.loads(l) for l in open(f"{VERIF}/properties.jsonl")]
    hooks_commits = subprocess.run(
        ["git", "-C", "/repo", "log", "--format=%H %s", "--grep=^verif:"],
        capture_output=True, text=True).stdout.strip().splitlines()
    checks = []
    not_applicable = []
    na_reasons = {}
    try:
        na_reasons = json.load(open(f"{VERIF}/tools/not_applicable.json"))
    except FileNotFoundError:
        pass
    for p in props:
        pid = p["id"]
        if pid in CHECKS:
            technique, text, note = CHECKS[pid]
            checks.append({
                "property_id": pid,
                "quick_cmd": f"./check {pid} quick",
                "thorough_cmd": f"./check {pid} thorough",
                "evidence_file": f"/verif/evidence/{pid}.json",
                "replay_cmd_template": f"./check {pid} quick --replay {{path}}",
                "engine": "verif-cli" if pid in CLI_IDS else "verif-lib",
                "level_claimed": {
                    "category": LEVEL.get(pid, "exploration"),
                    "text": text,
                    "design_ref": f"DESIGN.md section 5, {pid}",
                },
                "level_note": note,
                "technique": technique,
            })
        else:
            not_applicable.append({"property_id": pid, "reason": na_reasons.get(pid, NOT_YET)})
    manifest = {
        "version": 1,
        "setup_cmd": "cd /verif/harness && CARGO_NET_OFFLINE=true CARGO_TARGET_DIR=/verif/target RUSTFLAGS='--cfg jj_vcs_jj_verif' cargo build --offline -p vlib -p vcli",
        "hooks": {
            "guard": "--cfg jj_vcs_jj_verif",
            "enable": "RUSTFLAGS='--cfg jj_vcs_jj_verif' cargo build (harness workspace /verif/harness has path dependencies on /repo/{lib,core,cli,lib/testutils}; ./check rebuilds before every run)",
            "baseline_off_cmd": "cd /repo && cargo nextest run --workspace --no-fail-fast --test-threads 8 --offline || cargo test --workspace --no-fail-fast --offline",
            "source_commits": [l.split()[0] for l in hooks_commits],
            "add_only": True,
        },
        "engines": [
            {"name": "verif-lib", "path": "/verif/harness/vlib",
             "serves_properties": [c["property_id"] for c in checks if c["engine"] == "verif-lib"],
             "kind_free_text": "Rust binary linking jj-lib/jj-core/testutils from /repo with hooks on; seeded generators + oracles (reference models, invariants, history checkers), 16 worker threads"},
            {"name": "verif-cli", "path": "/verif/harness/vcli",
             "serves_properties": [c["property_id"] for c in checks if c["engine"] == "verif-cli"],
             "kind_free_text": "Rust binary linking jj-cli; drives the hooked jj binary (built in the same workspace) hermetically and reads repositories back through jj-lib for offline oracles"},
        ],
        "checks": checks,
        "notes": "All checks are runtime monitors over executions of the real code (see DESIGN.md). Exit 0 held / 1 VIOLATION / 2 inconclusive. VERIF_SEED selects the workload; known_findings.json lists recorded genuine defects.",
        "not_applicable": not_applicable,
    }
    with open(f"{VERIF}/MANIFEST.json", "w") as f:
        json.dump(manifest, f, indent=1)
        f.write("\n")
    try:
        import jsonschema
        jsonschema.validate(manifest, json.load(open("/root/.vp/MANIFEST.schema.json")))
        print(f"MANIFEST.json valid: {len(checks)} checks, {len(not_applicable)} not claimed")
    except ImportError:
        print("jsonschema not importable; wrote MANIFEST.json unvalidated")


CLI_IDS = {"C09", "C15", "C34", "C35", "C36", "C40", "C41", "C42", "C44", "C45"}

if __name__ == "__main__":
    sys.exit(main())
