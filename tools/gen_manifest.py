#!/usr/bin/env python3
"""Regenerates /verif/MANIFEST.json from the table below and validates it."""
import json
import subprocess
import sys

VERIF = "/verif"

# id -> (technique, level text, level note)
CHECKS = {
    "C01": (
        "runtime differential monitor: denotation/idempotence/write-back oracle over exhaustive small and seeded random merges",
        "Runs the real Merge::simplify/flatten/update_from_simplified on every term list up to a bound (exhaustive) and on millions of seeded random flat, Option-valued and nested merges; an independent signed-count oracle checks denotation, no value on both sides, idempotence, polarity and write-back positions. Holds on the executions observed, exhaustive inside the stated bounds.",
        "Trusts Eq/Ord on u8 test values and the harness' own multiset arithmetic.",
    ),
    "C02": (
        "runtime differential monitor: counting-rule reference vs trivial_merge, exhaustive small + random large",
        "Every odd-length list up to the bound over a 4-value alphabet under both same-change settings (exhaustive) plus seeded random lists up to 41 terms is resolved by the real trivial_merge/resolve_trivial and compared with an independent counting reference; add/remove permutations must not change the answer.",
        "Reference is the counting definition cited in the property's quantifier; for >=3 surviving values it leaves the conflict unresolved (see DESIGN C02).",
    ),
    "C03": (
        "runtime monitor: partition/alternation/equality oracle over generated diffs, repeat-run and second-process determinism",
        "Runs the real ContentDiff (all tokenizers incl. refined chains and seeded random tokenizers, three comparators) on generated 1..5-input cases and checks that hunks partition every input contiguously, matching hunks are equal under the comparator, no hunk is empty on all sides, kinds alternate, hunks()==hunk_ranges(), and that rebuilding the diff (fresh RandomState each time, plus a second process) yields identical hunks.",
        "Whitespace normalisation reference is the harness' own; determinism is observed over 4 in-process rebuilds and one extra process per case prefix.",
    ),
    "C04": (
        "runtime differential monitor: whole-file cancellation law + independent per-hunk reference merge",
        "Real files::merge_hunks/merge/try_merge on generated 3/5/7-term merges (edits of a common base, planted identical terms, empty/binary, LF/CRLF) under both hunk levels and same-change settings; oracle: whole-file counting law, resolved-or-same-arity shape, agreement of the three entry points, and equality with a reference that re-diffs by line/word and applies the counting rule per hunk.",
        "Trusts ContentDiff hunk boundaries (monitored separately by C03) and the counting reference of C02.",
    ),
    "C05": (
        "runtime monitor: parse(materialize(conflict)) == merge hunks over generated conflicts, all marker styles",
        "Materializes generated 2..4-sided conflicts (marker look-alikes up to 20 chars, CRLF, stray CR, missing final newline, empty sides, labels) with every marker style and with the marker length chosen as checkout does or forced longer, parses the bytes back and requires exactly the hunks files::merge_hunks produced; writer and bytes forms must agree.",
        "Exact equality was probed silent on 390k conflicts before being adopted; labels contain no newline (as produced by jj).",
    ),
    "C30": (
        "runtime monitor: visit() soundness vs matches() over random matcher trees and path universes",
        "Builds random trees of Files/Prefix/Globs/Everything/Nothing under Union/Intersection/Difference (explicit combinators and via FilesetExpression::to_matcher), and for every matching universe path checks every ancestor directory's visit(): never Nothing, Specific lists the next component in the right set, AllRecursively implies every universe path below matches; matches() is also compared with a reference evaluator.",
        "Universe is finite (random + perturbations of paths named by the matcher); globs restricted to the forms of the reference matcher.",
    ),
    "C31": (
        "runtime differential monitor: reference fileset evaluator vs parsed expression",
        "Random fileset ASTs over all pattern kinds and operators are rendered to text (full or minimal parentheses), parsed by the real fileset::parse from a random cwd, compiled with to_matcher and compared path by path with a reference evaluator (exact, prefix, small glob matcher, ASCII case folding).",
        "Reference glob semantics are byte-wise (? and [set] consume one byte) like the regex jj compiles globs to; glob forms restricted to * ? [set] {a,b} and whole-component **.",
    ),
    "C32": (
        "runtime differential monitor: lexical path reference vs RepoPath conversions, round trips and confinement",
        "Random cwd/base/input triples (., .., doubled separators, unicode, absolute, outside the workspace) go through parse_fs_path/from_relative_path/to_fs_path/format+parse_file_path; a string-level lexical reference decides accept/reject and value; results never contain empty/./.. components, to_fs_path stays under base and round-trips.",
        "Symlinks are out of scope (conversion is lexical by design).",
    ),
    "C33": (
        "runtime monitor: bijection oracle export->parse and parse->export over random names",
        "Random bookmark/tag symbols (valid remote names per validate_remote_name) are exported with the real to_git_ref_name and parsed back with parse_git_ref, random git-valid ref names are parsed and exported again; both round trips must be identities and no two symbols may share a ref.",
        "Import direction restricted to ref names git/gix accept (gix::validate); uses the cfg-guarded re-export of the private functions.",
    ),
    "C07": (
        "runtime differential monitor: per-path reference merge over generated trees on a chaos store (seeded completion orders)",
        "Real MergedTree::merge on 3/5/7-way merges of generated trees (files, executables, symlinks, nested directories, file<->directory replacements, planted equal terms, already-conflicted inputs) on a store whose backend delays every async read/write a seeded number of polls and reports concurrency 1/2/8; at every path with clean ancestry the result's denotation must equal an independent reference (counting rule, then content merge by the C04 reference, executable bit by counting), has_conflict() iff a path conflicts, survivor-tree identity, identical tree ids across 3 completion orders.",
        "Paths below a file/directory clash and paths where non-directory terms cancel leaving only directories are not decided (both jj outcomes are path-wise merges of the leaves); trusts store round trips (C17) and ContentDiff (C03). One genuine defect recorded as known finding (non-idempotent resolve, debug assertion).",
    ),
    "C08": (
        "runtime monitor: per-path rebase laws (denotation comparison) over generated commit graphs, away-and-back",
        "Real rebase_commit / rebase_with_empty_behavior on generated DAGs with trees (new parents: root, single, merges, conflicted, variations of the old parents); per path: unchanged-by-commit paths take the new merged parents' value, paths the old and new merged parents agree on keep the commit's value; rebase onto current parents is the identity on tree ids and labels; disjoint away-and-back restores the tree (exactly for resolved trees, per-path denotation for conflicted).",
        "Uses merge_commit_trees (monitored by C07) for the merged parents; paths below file/directory clashes skipped. A genuine defect found by this monitor was repaired (fix: rebase fast path).",
    ),
    "C09": (
        "runtime invariant monitor: tree ids of the topmost commit and all descendants before/after squash, absorb and split",
        "Library-level squash_commits, absorb (split_hunks_to_trees + absorb_hunks) and a split spelled with the calls cmd_split uses, on generated linear and merge stacks with descendants, side branches and a working-copy commit; tracked by change id: the topmost resulting commit, the source, every descendant and @ keep identical tree_ids, descendants stay visible, non-descendants of receivers keep their commit id.",
        "Library level only (the CLI split/squash/absorb front-ends call these functions). Known finding: merge descendants above a side branch of a receiving commit are re-merged.",
    ),
    "C10": (
        "runtime invariant monitor: view invariants after every committed operation and operation merge, own ancestry",
        "Random sequences (commit creation, rewrite, abandon, rebase_descendants, bookmark edits incl. conflicted/absent, edit/check_out in 1-3 workspaces, remove_head, concurrent transactions merged by merge_operations and load_at_head); after every commit, merge and fresh reload from disk: heads non-empty and an antichain under the harness' own ancestry, root only alone, every bookmark add and working-copy commit is an ancestor-or-equal of a head.",
        "Ancestry comes from the harness' Dag, never from jj's index. New commits are also created on hidden (abandoned/rewritten) parents. Concurrent workloads avoid cross-reparenting (recorded under C13).",
    ),
    "C11": (
        "runtime invariant monitor: orphan / reference / change-id invariants after rebase_descendants with recorded intents",
        "Generated DAGs with bookmarks and workspaces, random rewrite/abandon/divergent/chain records, rebase_descendants_with_options under every EmptyBehavior, immutable sets, delete_abandoned_bookmarks and simplify_ancestor_merge; oracle: no visible commit descends from a rewritten/abandoned commit (with the divergent and immutable exceptions), rebased commits keep change id/description/author and record the predecessor, bookmarks and working copies follow (rewrite -> final rewrite, abandon -> parents or deletion, new wc commit on the parents), shared change ids only with a recorded divergence.",
        "Conflicted bookmarks get the weaker 'no add left on a replaced commit' clause (exact merging is C12). One defect repaired (fix: ordering of multi-hop rewrites), one recorded as known finding (panic editing the root).",
    ),
    "C12": (
        "runtime differential monitor: 3-way ref-target specification + safe-pair decomposition, own ancestry",
        "Real merge_ref_targets on random (left, base, right) targets (absent, normal, conflicted with absent terms, equal pairs, ancestor chains) over generated DAGs against the mutable and readonly index; result ids are a subset of input ids; full specification for non-conflicted inputs; for conflicted inputs the dropped terms must decompose into (+a,-r) pairs with r absent or an ancestor of a and a below a remaining add.",
        "Ancestry from the harness' Dag.",
    ),
    "C13": (
        "runtime history monitor: per-object no-loss oracle from recorded intents, every reconciliation order",
        "2-3 concurrent transactions (also criss-cross) with random edits are committed from the same operation and reconciled by merge_operations in every permutation and by load_at_head; per object, from each side's own intent: untouched commits stay, hidden stays hidden, created commits visible as themselves or a same-change successor, local bookmarks, tags, remote-tracking bookmarks and workspaces take the changing side's value (following the other side's rewrite/abandon in the decidable cases), identical changes kept, different changes conflict per the C12 reference.",
        "Rewrite-interaction clauses are enforced only in the cases the engine can decide soundly (others counted as skipped). Several genuine defects recorded as known findings (order-dependent divergent rewrites, cross-reparenting panic, same-millisecond duplicate commit), one repaired.",
    ),
    "C14": (
        "runtime monitor under controlled schedules: hook-point scheduler (exhaustive DFS for 2 actors, seeded walks for 3, kills) + directory-listing oracle",
        "Actor threads with their own RepoLoader on one repository (publishers at head / from a stale operation, reconcilers, readers) are parked at the cfg-guarded hook points before every op-head read/add/remove/lock step; a controller enumerates interleavings (DFS, optionally one kill at any parked point; random walks for 3 actors), with working flock and with locking disabled; after every step the real heads/ directory must be non-empty and every operation whose head add completed must be an ancestor of a listed head; at quiescence one load_at_head leaves a single head descending from all of them.",
        "Interleavings at hook granularity (directory read treated as atomic, as in the property); kill is emulated by unwinding the actor thread (locks released as the OS would); quick caps each DFS job.",
    ),
    "C15": (
        "fault enumeration: abort() at every reached durable-write hook point of representative commands, recovery oracle",
        "15 command scenarios on the git backend (describe/new/commit with unsnapshotted edits, squash, rebase, abandon, bookmark move, undo, op restore, edit, conflicted checkout, workspace add, workspace update-stale, sparse set, restore); counting pass with the hook trace, then one run per reached write-side hook point killed there from a byte-identical restored pre-state with pinned timestamps/randomness; oracle: repository opens, every earlier operation still in the log, op heads are states the uninterrupted run passes through, every op/view/commit/tree reachable and every op-store file decodes, git fsck, jj status/log succeed (after workspace update-stale if needed), every pre-command file content is on disk or in some operation's working-copy commit.",
        "Process kill, not power loss; hook layer only (no crash inside gix or the git subprocess between hook points); quick samples one point per (hook label x file kind) class per scenario, thorough crashes at every point.",
    ),
    "C16": (
        "runtime monitor: store round trip + independent decoder of the hashed encoding (injectivity by decodability)",
        "Random views built through the View setters and operations with random metadata go through a fresh SimpleOpStore (round trip, id = blake2b of the recorded ContentHash bytes, id stable across rebuilds and a second process); an independent decoder written from the documented encoding reconstructs the value from the hashed bytes, near-miss variants must differ in encoding and id, and a global encoding->value map detects collisions.",
        "Views limited to what the public setters can produce; ids are 64 bytes.",
    ),
    "C17": (
        "runtime monitor: fresh-store read == write result, field by field, Git and simple backends",
        "Random commits (1-3 parents, conflicted root trees with labels, shared change ids, unicode/empty names, negative/sub-second/far-future timestamps, tz -1440..1440), trees and blobs are written and read back on a fresh Store on the same directory; each field has its own clause; distinct commits must get distinct ids; the in-memory cache must equal the write result.",
        "Names/emails without surrounding whitespace (outside the stated quantifier; the Git backend trims them). A genuine defect found by this monitor was repaired (fix: author timestamp).",
    ),
    "C18": (
        "runtime differential monitor: DAG model vs commit index in every storage form",
        "Generated DAGs (octopus merges, shared change ids) added over 4-25 transactions of varying sizes incl. concurrent ones; has_id, is_ancestor, common_ancestors, heads, all_heads_for_gc, generation numbers and change-id lookups are compared with the harness' Dag on the mutable index, the readonly index, each concurrent side, merge_index results, after load_at_head, after a fresh load from disk and after reindexing from scratch; segment-stack depths recorded.",
        "Results compared as sets; hidden change-id targets only need to be a subset (the trait allows omissions).",
    ),
    "C19": (
        "runtime differential monitor: reference set evaluator over the DAG model vs revset engine",
        "Random expression trees (ancestors/descendants with generation ranges, ranges, heads/roots, fork/merge points, reachable/connected, latest, first-parent ancestry, coalesce, present, at_operation, symbols and patterns, set operators) over generated DAGs with hidden commits, bookmarks and tags, built through the API and through text; oracle: set equality with a plain-set evaluator, no duplicates, order is the restriction of the global index order with children before parents, optimized == unoptimized, text == API.",
        "latest() ties at the cut-off are excluded from the set clause (no documented tie-break); functions with content filters are not generated.",
    ),
    "C20": (
        "runtime monitor: brute-force prefix scan oracle over mined commit ids and planted change ids",
        "Commit ids are mined (6000 cheap commits per case) for shared prefixes, change ids are planted with shared prefixes of 1..31 hex digits, spread over several index segments with hidden commits; for every sampled id the reported shortest length must be unique, resolvable back and minimal per a brute-force scan, also with odd lengths and under IdPrefixContext::disambiguate_within with random revsets.",
        "Commit ids cannot be chosen: shared commit-id prefixes reach 5-7 digits only.",
    ),
    "C39": (
        "runtime monitor: edge typing and closure oracle over the graph iterator for random sparse revsets",
        "Random sparse revsets over generated DAGs go through iter_graph (with and without transitive-edge skipping), the stream variant, TopoGroupedGraph and reverse_graph; nodes are the revset in global order before their ancestors; direct edge => shown parent; indirect => shown ancestor reachable only through unshown commits; missing => target not shown; the closure of edges equals ancestry among shown nodes and is unchanged by transitive-edge skipping.",
        "A direct parent labelled 'indirect' would be accepted (the statement does not forbid it).",
    ),
    "C06": (
        "runtime monitor: update_from_content / checkout+snapshot identity on generated file conflicts, edits confined to resolved regions",
        "Generated Merge<Option<FileId>> conflicts (3-11 terms, redundant pairs, absent terms, exec-bit differences, marker look-alikes, CRLF) are materialized exactly as checkout does and parsed back with update_from_content: the unedited bytes must give back the input ids including arity; at working-copy level a conflicted tree is checked out and snapshotted (also after forcing re-reads): identical tree ids; edits inside resolved regions must be applied to every side.",
        "After an edit the working-copy level re-runs resolve(), so terms that became equal may cancel (accepted, meaning unchanged); function level restricted to >=2 simplified sides.",
    ),
    "C21": (
        "runtime history monitor: marker-key happens-before checker over saves from several TableStore instances, free-running and controlled interleavings",
        "2-4 TableStore instances on one directory save random keys plus a unique marker per save from fresh, stale and locked heads, sequentially, free-running with seeded yields at the hook points, and under controlled interleavings at the table.* / lock hook points, with working flock and with locks disabled; offline checker: every load contains the saves completed before it, values come from a save that is maximal under happens-before, saved tables equal base plus entries across squashes, lookups identical after reload and equal to an independent parse of the segment files, a final fresh load holds every completed save.",
        "Lost-save clauses carry the lock discipline in their signature. One defect repaired (merged head removed), one recorded as known finding (ancestor values overriding newer ones after a squash).",
    ),
    "C22": (
        "runtime differential monitor: tree-model diff vs changed-path index and files() revsets in every build form",
        "Random histories with merges (resolved, auto-merged and conflicted merge trees), index enabled late, built incrementally with small limits, extended, merged from concurrent operations (also enabled on one side only), rebuilt from scratch, reloaded; changed_paths_in_commit must equal the paths whose value differs between the commit and the merge of its parents, files() revsets must return the same commits as a brute-force scan.",
        "Unindexed commits (None) are legitimate and counted. Known finding: unsimplified parent conflicts reported as changed.",
    ),
    "C23": (
        "runtime differential monitor: disk model + edit script vs snapshot tree read back from the store, forced timestamps",
        "Seeded edit scripts (create, overwrite, same-size rewrite, chmod, valid and dangling symlinks, delete, file<->directory swaps, root and nested .gitignore in restricted forms) are applied to a real workspace and to a model; mtimes come from a logical clock; after each of 3-6 snapshots (fresh Workspace::load each time) the tree must contain exactly the paths that were tracked or are unignored, auto-tracked and small enough, with disk content, exec bit and link target.",
        "Library API (the CLI calls the same snapshot); restricted .gitignore forms whose semantics are certain (C28 covers the pattern language). A genuine defect found here was repaired (fix: ENOTDIR).",
    ),
    "C24": (
        "runtime monitor: disk == tree, snapshot identity and path independence over checkout sequences",
        "2-6 checkouts per workspace (full and sparse) between generated trees (files, executables, symlinks, file<->directory replacements, 40% conflicted merges, repeats of a conflicted tree with only the conflict labels changed) under every eol x exec-bit x marker-style policy: disk equals the tree's leaves (through an own EOL reference), a snapshot from a fresh load returns identical tree ids (also after forcing re-reads) and writes nothing, and the disk equals a from-scratch checkout of the same tree.",
        "Conflicted trees are produced by MergedTree::merge (snapshot re-runs resolve()); exec bit not compared under exec-bit-change=ignore; conflict file contents are C06's business.",
    ),
    "C25": (
        "runtime monitor: planted foreign files and outside directories must be byte-identical after checkout",
        "Before a checkout from A to B, untracked files and directories, ignored files, local edits of tracked files untouched by the update (including hand resolutions of conflicted files whose conflict is the same in A and B), symlinks to outside files and symlinked directories pointing outside the workspace are planted where B wants files/directories; every planted entry and the outside directory must be unchanged, blocked paths are skipped (stats.skipped_files) not overwritten, checkout returns Ok.",
        "strace audit of thorough tier not built. Known finding: unsorted placeholder states (debug assertion) when a tracked directory was replaced on disk.",
    ),
    "C26": (
        "runtime monitor with forced timestamps: exhaustive enumeration of (t_write <= t_save <= t_edit) placements per granularity",
        "For granularities 1 ms, 10 ms, 1 s, 2 s (and an unfloored 250 us step) every triple in the window is forced with utimensat on the file and on the tree_state file exactly as the clean check reads them, a same-size in-place edit follows, and a snapshot from a fresh load must contain the new content; new and previously tracked files; plus a free-running same-millisecond workload.",
        "exhaustive is set only when all 840 placements ran; wall-clock never decides.",
    ),
    "C27": (
        "runtime monitor: tree unchanged and disk delta == pattern delta over random sparse pattern sequences",
        "Random trees and 6-14 steps of set_sparse_patterns (empty, root, nested, overlapping, non-existent prefixes), edits inside/outside the patterns and snapshots; after a pattern change the tree id is unchanged, leaving files are removed, entering files written (obstructed ones skipped and left intact), everything else byte-identical, stats match; a snapshot never changes a tree path outside the patterns.",
        "added_files accepted with or without the skipped count (the code carries a TODO about it).",
    ),
    "C28": (
        "runtime differential monitor: jj's ignore chain (as the snapshot walker uses it) vs git check-ignore on materialized trees",
        "Random stacks of ignore files (core.excludesFile, info/exclude, root and nested .gitignore; negation, anchoring, directory-only, globstar, brackets, POSIX classes, escapes, trailing spaces, comments, CRLF, BOM) over random trees are materialized; one git check-ignore --no-index per tree is the reference; mismatches are minimised to one or two lines and reported per pattern class; a tenth of the cases also compare a real snapshot with git ls-files.",
        "Reference is git 2.39. Two divergences inside the gix-ignore dependency are recorded as known findings.",
    ),
    "C29": (
        "runtime differential monitor: own EOL classifier/converter vs checkout + snapshot under each conversion mode",
        "Contents around the 8 KiB probe boundary (LF/CR/NUL/CRLF at offsets 8186-8197, CRLF images straddling the boundary) and small LF/CRLF/mixed/binary files are checked out and snapshotted under none/input/input-output: verbatim where required, LF-only text becomes its CRLF image and snapshots back to the stored bytes, binary passes through unchanged.",
        "A lone CR exactly at offset 8191 is ambiguous between jj's probe and the statement: either disk image accepted, round trip still required.",
    ),
    "C35": (
        "runtime monitor: format -> parse identity for revset, fileset and template string/symbol forms",
        "100k hostile unicode strings (quotes, backslashes, controls, NUL, @, operators, combining/wide/astral characters): format_string/format_symbol/format_remote_symbol parse back through revset::parse to exactly the same string / symbol / name@remote; escape_string parses back as a template string literal and as a fileset string.",
        "fileset_parser is private, so the fileset string is observed as a single path component (/ replaced).",
    ),
    "C36": (
        "runtime crash monitor: every parse in a worker subprocess on an 8 MiB thread, outcome classification",
        "Random bytes, operator soup, 1110 expressions harvested from the docs and default config, token-level mutations, grammar-generated expressions and random alias maps (recursive, overloaded, shadowing) are parsed by the revset, fileset and template parsers inside worker subprocesses; nesting sweeps up to 16384 (thorough 100000) levels for 26 construct classes; panics, aborts and stack overflows are violations, slowness (CPU-time watchdog) is counted and excluded.",
        "18 stack-overflow classes (no recursion limit in the parsers) are recorded as known findings keyed by parser and construct; any other crash is reported.",
    ),
    "C37": (
        "runtime monitor: exhaustive monotone bad sets on small ranges + random large, minimal-bad-set oracle",
        "The real Bisector on generated chains and DAGs: every descendant-closed bad set for every range of <= 10 commits (exhaustive), random monotone bad sets up to 200 commits, with and without skip answers; without skips the result must be exactly the earliest bad commits, no commit asked twice or outside the range, <= floor(log2 n)+2 steps on chains; with skips never a wrong result.",
        "Known finding: one of several earliest bad commits that share a descendant is not reported.",
    ),
    "C38": (
        "runtime monitor: unique-line ground truth vs annotate over generated histories with merges",
        "Histories of one file whose lines carry unique ids (plus a duplicate-line variant) are annotated from random commits and domains: text equals the file, each origin is an ancestor-or-self holding that line at that number and inside the domain; for upward-closed domains the origin must be the introducing commit and never a line carried over from a searched parent.",
        "Introducer clause only for upward-closed domains; one defect repaired (fix: omitted parent counted once), one recorded as known finding (merge blamed when the introducer is reachable via two parents).",
    ),
    "C43": (
        "runtime monitor: path confinement + copy/move model over random config-id contents and repo directory operations",
        "Random sequences of repo create / config-id writes (30+ malformed forms) / cp -r / read-only copy / rename / delete followed by load_config / maybe_load_config: the returned path is lexically <root>/<20 hex>/config.toml, nothing outside the config root and the repo dir changes, a writable copy with the original present gets a different directory with identical content while the original's stays byte-identical, a move keeps its directory, no two live writable repos share a file.",
        "A malformed id must never select an existing config (error or fresh config both accepted).",
    ),
    "C44": (
        "runtime monitor: width / UTF-8 / identity clauses for every width-taking function of text_util",
        "150k random unicode strings (wide, combining, control, emoji sequences) through elide_start/end, write_truncated_start/end, write_padded_*, wrap_bytes, write_wrapped with random widths and ellipses: output width <= requested unless one character is wider, prefix/suffix + ellipsis structure, valid UTF-8, fitting text unchanged, exact fill, wrapped content preserved.",
        "A width clause is reported only if it fails under both readings of width (per-character sum and str::width()). Three genuine defects recorded as known findings.",
    ),
    "C46": (
        "runtime history monitor: recorded (new -> predecessors) edges per operation vs walk_predecessors",
        "Library-level histories of describe/rebase/squash/split/abandon-like rewrites over many operations with concurrent operations merged by reload_at_head, stale transactions and op-restore style view resets; every edge is logged by the harness; walk_predecessors must terminate within a bound, list no commit twice, contain the full transitive predecessor closure recorded in ancestor operations and list every entry after all entries it is a predecessor of.",
        "Legacy operations without recorded predecessors are not generated.",
    ),
    "C40": (
        "runtime history monitor over the operation log: every pre-command disk state must be on disk or in some operation's working-copy commit",
        "Random command sequences (new, edit, describe, commit, squash, split, abandon, rebase, restore, undo/redo, op restore/revert, workspace add/forget/update-stale, --at-op, stale workspaces) interleaved with random file edits in 1-2 workspaces drive the hooked jj binary hermetically; before each command the disk state of every workspace is recorded; afterwards every (path, bytes) must still be on disk or be found, through a read-only jj-lib reader, in that workspace's working-copy commit of some operation. Failed commands included.",
        "Unedited jj-written conflict marker/placeholder files and edited files still containing conflict markers are exempt (C05/C06 territory); mutating commands are never run with --ignore-working-copy. Two genuine data-loss defects recorded as known findings.",
    ),
    "C41": (
        "runtime monitor: structured view equality with the target operation computed from the op log",
        "Random command sequences followed by undo / redo / op restore / op revert: after op restore X the head operation's heads, local bookmarks, tags and working-copy commits equal X's; undo/redo targets are computed from the operation log with an independent implementation of the documented undo-stack rule (repeated undo, redo of redo, intervening snapshot operations) and the resulting view must equal the target's; permitted difference: a same-tree child on an immutable restored working-copy commit.",
        "op revert is checked only when X is the latest operation or when only bookmarks/tags changed since; remote-tracking bookmarks are not compared.",
    ),
    "C42": (
        "runtime monitor: immutable ids (evaluated before each command) must stay visible after it",
        "Random immutable_heads() configurations (builtin, none(), tags(), bookmarks(), description globs, specific commits) and random mutating commands (describe, squash, split, abandon, rebase, restore, duplicate, parallelize, absorb, metaedit, simplify-parents, file chmod, revert, diffedit with an editing tool, fix, resolve, sign/unsign, bookmark/tag/workspace commands) on random targets (half of them immutable) without --ignore-immutable; the immutable set is taken from jj before the command, afterwards every id in it must still be in all(); a snapshot on an immutable @ must create a single-parent child; a second workspace's @ made immutable from the first.",
        "undo, op restore, fetch and --at-op are excluded from this workload (they hide by time travel, not by rewriting).",
    ),
    "C34": (
        "runtime monitor: per-name (last synced, jj, git) sync model over random interleavings of jj bookmark edits and external git ref edits",
        "Plain (explicit jj git import/export) and colocated repositories driven through the hooked jj binary and plain git: random bookmark create/move/delete/set and external git update-ref / branch -D on existing commits with imports, exports and convergence points (import; export; second import); after every step jj's bookmarks (read-only reader) and git's refs are compared with the model: one-sided changes propagate, two-sided different changes become conflicts (or documented fast-forwards, ancestry from git rev-list), conflicted bookmarks leave the git ref alone, git branches equal the resolved bookmarks, a second import creates no operation.",
        "A conflict is compared by its adds and term count; read-only commands in colocated repos are not required to export; system git is 2.39, so a wrapper drops --porcelain from `git fetch` only.",
    ),
    "C45": (
        "runtime monitor: lease model per pushed bookmark with remote updates placed before, between and during the push (hook-triggered)",
        "A bare remote, a jj clone and a second plain-git clone: random local bookmark edits, fetches and jj git push (--bookmark/--all/--deleted) while the other clone force-pushes, deletes or updates refs before the fetch, between fetch and push, - through JJ_VERIF_RUN_AT=git.push.before_spawn - while the push is in flight, and - through an `update` hook of the bare remote - after git's client-side lease check (the remote itself then refuses one bookmark of a multi-bookmark push); per bookmark with R0 = remote position when git runs, E = recorded name@origin, T = local target: the remote changes only if R0 == E and only to T; otherwise remote, record and local bookmark are unchanged and the rejection is reported.",
        "If R0 != E but R0 already equals T nothing is overwritten and only 'record is the old value or R0' is enforced; the set of attempted bookmarks is taken from jj's own announcement.",
    ),
}

LEVEL = {"C15": "fault_enumeration"}

NOT_YET = "monitor not built yet in this revision of /verif (planned in DESIGN.md section 5); not claimed until it runs silent and sound"


def main():
    props = [json.loads(l) for l in open(f"{VERIF}/properties.jsonl")]
    hooks_commits = subprocess.run(
        ["git", "-C", "/repo", "log", "--format=%H %s", "--grep=^verif:"],
        capture_output=True, text=True).stdout.strip().splitlines()
    checks = []
    not_applicable = []
    na_reasons = {}
    try:
        na_reasons = json.load(open(f"{VERIF}/tools/not_applicable.json"))
    except FileNotFoundError:
        pass
    for p in props:
        pid = p["id"]
        if pid in CHECKS:
            technique, text, note = CHECKS[pid]
            checks.append({
                "property_id": pid,
                "quick_cmd": f"./check {pid} quick",
                "thorough_cmd": f"./check {pid} thorough",
                "evidence_file": f"/verif/evidence/{pid}.json",
                "replay_cmd_template": f"./check {pid} quick --replay {{path}}",
                "engine": "verif-cli" if pid in CLI_IDS else "verif-lib",
                "level_claimed": {
                    "category": LEVEL.get(pid, "exploration"),
                    "text": text,
                    "design_ref": f"DESIGN.md section 5, {pid}",
                },
                "level_note": note,
                "technique": technique,
            })
        else:
            not_applicable.append({"property_id": pid, "reason": na_reasons.get(pid, NOT_YET)})
    manifest = {
        "version": 1,
        "setup_cmd": "cd /verif/harness && CARGO_NET_OFFLINE=true CARGO_TARGET_DIR=/verif/target RUSTFLAGS='--cfg jj_vcs_jj_verif' cargo build --offline -p vlib -p vcli",
        "hooks": {
            "guard": "--cfg jj_vcs_jj_verif",
            "enable": "RUSTFLAGS='--cfg jj_vcs_jj_verif' cargo build (harness workspace /verif/harness has path dependencies on /repo/{lib,core,cli,lib/testutils}; ./check rebuilds before every run)",
            "baseline_off_cmd": "cd /repo && cargo nextest run --workspace --no-fail-fast --test-threads 8 --offline || cargo test --workspace --no-fail-fast --offline",
            "source_commits": [l.split()[0] for l in hooks_commits],
            "add_only": True,
        },
        "engines": [
            {"name": "verif-lib", "path": "/verif/harness/vlib",
             "serves_properties": [c["property_id"] for c in checks if c["engine"] == "verif-lib"],
             "kind_free_text": "Rust binary linking jj-lib/jj-core/testutils from /repo with hooks on; seeded generators + oracles (reference models, invariants, history checkers), 16 worker threads"},
            {"name": "verif-cli", "path": "/verif/harness/vcli",
             "serves_properties": [c["property_id"] for c in checks if c["engine"] == "verif-cli"],
             "kind_free_text": "Rust binary linking jj-cli; drives the hooked jj binary (built in the same workspace) hermetically and reads repositories back through jj-lib for offline oracles"},
        ],
        "checks": checks,
        "notes": "All checks are runtime monitors over executions of the real code (see DESIGN.md). Exit 0 held / 1 VIOLATION / 2 inconclusive. VERIF_SEED selects the workload; known_findings.json lists recorded genuine defects.",
        "not_applicable": not_applicable,
    }
    with open(f"{VERIF}/MANIFEST.json", "w") as f:
        json.dump(manifest, f, indent=1)
        f.write("\n")
    try:
        import jsonschema
        jsonschema.validate(manifest, json.load(open("/root/.vp/MANIFEST.schema.json")))
        print(f"MANIFEST.json valid: {len(checks)} checks, {len(not_applicable)} not claimed")
    except ImportError:
        print("jsonschema not importable; wrote MANIFEST.json unvalidated")


CLI_IDS = {"C15", "C34", "C35", "C36", "C40", "C41", "C42", "C44", "C45"}

if __name__ == "__main__":
    sys.exit(main())
