#!/bin/bash
# Runs every claimed check once:  run_all.sh <seed> [quick|thorough] [logdir]
SEED="${1:-0}"; TIER="${2:-quick}"; LOG="${3:-/tmp/verif-runall-$SEED-$TIER}"
mkdir -p "$LOG"
IDS=$(python3 -c "import json;print(' '.join(c['property_id'] for c in json.load(open('/verif/MANIFEST.json'))['checks']))")
for ID in $IDS; do
  START=$(date +%s)
  VERIF_SEED=$SEED VERIF_WATCHDOG_S="${VERIF_WATCHDOG_S:-1800}" /verif/check "$ID" "$TIER" > "$LOG/$ID.log" 2>&1
  CODE=$?
  echo "$ID exit=$CODE $(( $(date +%s) - START ))s $(grep -c '^KNOWN-FINDING' "$LOG/$ID.log") known $(grep -m1 -E '^(VIOLATION|INCONCLUSIVE)' "$LOG/$ID.log" | cut -c1-150)"
done
